#!/usr/bin/env python3
import json
hs=json.load(open('/verif/harness/harnesses.json'))
props=[json.loads(l) for l in open('/verif/properties.jsonl')]
byprop={}
for h in hs:
    if h.get('disabled'): continue
    byprop.setdefault(h['property'],[]).append(h)
notes={
 'C01':"the four set operations on two symbolic lattice Points through the real overlay (Point x Line in the thorough tier); on 15 concrete operand pairs (holes, nesting, shared edges, overlapping collection members, mixed dimensions) the six operations run from the real SSA and membership of EVERY real location in the result is decided against the Boolean combination of exact membership oracles, plus validity and the area laws; symbolic areal/lineal operands are outside",
 'C02':"matrix layer for all matrices/patterns; empty-operand closed form; Relate through the real overlay on symbolic Point/Point (Point/Line thorough) and the mod-2 rule on three lines in all member orders; on 21 concrete operand pairs incl. areal ones every cell is F exactly when no real location lies in both parts (universal/existential solver queries), type-determined digits, seven predicates equal their patterns",
 'C03':"non-finite ordinates for all bit patterns; IsSimple/ring validity against definitional oracles on 3-4 symbolic lattice points and on closed 5-segment curves with a symbolic start vertex; Polygon.Validate with one and with two holes (translated triangular hole, all arrangements without proper crossings); MultiPolygon with an empty member at any position",
 'C04':"all 64-bit ordinate patterns on small shapes",
 'C05':"structure through the real lexer/parser with numerals as opaque tokens; numerals themselves as 1..4 (thorough 5) symbolic bytes over {0,1,7,.,e,E,+,-} through text/scanner and the parser, strconv on each remaining concrete spelling",
 'C06':"six hand-rolled marshalers against an RFC 7946 printer; UnmarshalGeoJSON(MarshalJSON(g)) incl. collections with empty members; the decoder on grammar-built documents (position lengths 0..5); Feature/FeatureCollection round trip and grammar-built Feature documents on concrete JSON values; encoding/json itself is a model",
 'C07':"integer layer for all int64; structural round trip with uninterpreted scaling; exact at precision 0",
 'C08':"arbitrary short buffers and fully symbolic count fields",
 'C09':"Intersects against exact oracles on small symbolic lattice operand classes; on 51 concrete pairs of every type combination Intersects is true exactly when some real location lies in both (existential/universal queries) and agrees with Disjoint, Intersection and Distance==0; Distance of two segments is the least of the four end-point kernel values for every (uninterpreted) kernel; the kernel's numeric value is outside",
 'C10':"write-freedom (frozen operands) and aliasing; bit-identical results when one range over a map or all of them iterate rotated/reversed (symbolic Points; eight concrete operand pairs x six operations), schedule counterexamples confirmed by native repetition; goroutine interleavings are outside",
 'C11':"all order types of lattice boxes up to 5-6 records; Stop/error propagation on trees of three and four levels with a symbolic query box and stop position; PrioritySearch order",
 'C12':"lattice envelopes",
 'C13':"hull contract on 3 (quick) / 4 (thorough) symbolic lattice points and MultiPoints with empty members; on 102 concrete geometries every real location of g lies in the hull, hull vertices are vertices of g, strictly convex, idempotent",
 'C14':"Area exact on lattice triangles/quadrilaterals with holes; collection measures; Polygon.Centroid combines ring centroids with the right signed weights for both ring orientations and every hole position (library kernels compared term against term); numeric values of Length/Centroid outside",
 'C15':"boundary rules on small symbolic lattice shapes; on 102 concrete geometries Boundary(g) equals the OGC boundary as a point set (every real location) and PointOnSurface lies strictly inside an areal part / on a line; nested collections with empties",
 'C16':"all bit patterns, symbolic coordinate types",
 'C17':"structural contracts; SnapToGrid finiteness and InterpolatePoint for every (non-NaN) float64 on concrete lines in precise FP; Polygon/MultiPolygon.Simplify equal the ring-wise simplification for every threshold; geometric distance claims outside",
 'C18':"all finite floats for points/lines/multipoints; lattice rings",
 'C20':"13 kinds of empty x operations; measures, Relate/predicates and set-operation point sets unchanged by an empty member at any position or nesting",
}
checks=[]
for p in props:
    pid=p['id']
    if pid not in byprop: continue
    hl=byprop[pid]
    quick=[h['name'] for h in hl if h['tier']=='quick']
    thor=[h['name'] for h in hl if h['tier']=='thorough']
    checks.append({
     "property_id":pid,
     "quick_cmd":"./check %s --tier quick"%pid,
     "thorough_cmd":"./check %s --tier thorough"%pid,
     "evidence_file":"/verif/evidence/%s.json"%pid,
     "replay_cmd_template":"./check %s --replay {path}"%pid,
     "engine":"gosym",
     "level_claimed":{"category":"model_checking",
       "text":"bounded symbolic execution of the real go/ssa of /repo's working tree; every branch and assertion decided by an SMT solver for all inputs within the harness bounds (%s); solver models replayed against the native build. Harnesses: quick %s; thorough adds %s"%(notes.get(pid,''),', '.join(quick),', '.join(thor) or 'nothing'),
       "design_ref":"DESIGN.md section 7 %s and section 12"%pid},
     "level_note":"bounds and what lies outside them are listed per harness in the evidence file; trusted base: the SSA interpreter (validated on every run by native replay of path witnesses), z3 5.1/4.8.12 and cvc5 1.0, the listed stubs (fmt, reflectlite, unsafe views), uninterpreted float mul/div/sqrt outside the exact lattice domain",
     "technique":"symbolic execution of go/ssa + SMT (z3/cvc5), bounded"})
m={
 "version":1,
 "setup_cmd":"cd /verif/engine && GOFLAGS=-mod=mod GOPROXY=off GOSUMDB=off GOTOOLCHAIN=local go build -o /verif/bin/gosym ./cmd/gosym",
 "hooks":{"guard":"verif","enable":"harness files (//go:build verif) are injected into /repo/geom and /repo/rtree through go/packages Overlay (engine) and go test -overlay -tags verif (native replay); nothing is written into /repo and no hook is committed there",
   "baseline_off_cmd":"for m in $(cat /w/out/gomods.txt); do MF=$(cd /repo/$m && . /w/out/goenv.sh && gomodflag); (cd /repo/$m && go test $MF -json -vet=off -count=1 -timeout 25m ./...); done",
   "source_commits":[],"add_only":True},
 "engines":[{"name":"gosym","path":"/verif/engine","serves_properties":sorted(byprop.keys()),"kind_free_text":"symbolic executor for go/ssa (fork of x/tools go/ssa/interp with SMT-term scalars), path exploration by re-execution with decision prefixes, z3/z3-new/cvc5 portfolio, native replay of solver models"}],
 "checks":checks,
 "not_applicable":[{"property_id":"C19","reason":"map projections are compositions of sin/cos/tan/atan/log/exp/sqrt/pow with numeric-tolerance claims: SMT-LIB has no semantics for them and float multiplication proofs are out of solver reach (DESIGN section 8)"}],
 "notes":"fix: commits in /repo repair the defects found by the checks (see /verif/known_findings.json)"
}
for p in props:
    if p['id'] not in byprop and p['id']!='C19':
        m['not_applicable'].append({"property_id":p['id'],"reason":"no check built yet"})
json.dump(m,open('/verif/MANIFEST.json','w'),indent=1)
print(len(checks),'checks')
