#!/usr/bin/env python3
import json
hs=json.load(open('/verif/harness/harnesses.json'))
props=[json.loads(l) for l in open('/verif/properties.jsonl')]
byprop={}
for h in hs:
    if h.get('disabled'): continue
    byprop.setdefault(h['property'],[]).append(h)
notes={
 'C01':"kernel lemmas only so far (intersectLine, selectors) plus, when the overlay model is enabled, the set operations on tiny operand classes; the full pipeline on larger operands is outside",
 'C02':"matrix layer for all matrices/patterns; empty-operand closed form; Relate on two non-empty operands only on tiny classes",
 'C03':"non-finite ordinates for all bit patterns; IsSimple/ring validity against definitional oracles on 3-4 lattice points",
 'C04':"all 64-bit ordinate patterns on small shapes",
 'C05':"structure through the real lexer/parser; numerals are opaque tokens",
 'C06':"marshal side of the six non-collection types; decoder not encodable (encoding/json)",
 'C07':"integer layer for all int64; structural round trip with uninterpreted scaling; exact at precision 0",
 'C08':"arbitrary short buffers and fully symbolic count fields",
 'C09':"Intersects against exact oracles on small lattice operand classes; Distance flags only",
 'C10':"write-freedom (frozen operands) and aliasing; no real scheduling",
 'C11':"all order types of lattice boxes up to 5-6 records",
 'C12':"lattice envelopes",
 'C13':"hull of 3 (quick) / 4 (thorough) lattice points",
 'C14':"Area exact on lattice triangles/quadrilaterals; Length/Centroid only qualitative",
 'C15':"boundary rules on small lattice shapes; PointOnSurface membership for points/lines",
 'C16':"all bit patterns, symbolic coordinate types",
 'C17':"structural contracts; distance claims outside",
 'C18':"all finite floats for points/lines/multipoints; lattice rings",
 'C20':"13 kinds of empty x operations",
}
checks=[]
for p in props:
    pid=p['id']
    if pid not in byprop: continue
    hl=byprop[pid]
    quick=[h['name'] for h in hl if h['tier']=='quick']
    thor=[h['name'] for h in hl if h['tier']=='thorough']
    checks.append({
     "property_id":pid,
     "quick_cmd":"./check %s --tier quick"%pid,
     "thorough_cmd":"./check %s --tier thorough"%pid,
     "evidence_file":"/verif/evidence/%s.json"%pid,
     "replay_cmd_template":"./check %s --replay {path}"%pid,
     "engine":"gosym",
     "level_claimed":{"category":"model_checking",
       "text":"bounded symbolic execution of the real go/ssa of /repo's working tree; every branch and assertion decided by an SMT solver for all inputs within the harness bounds (%s); solver models replayed against the native build. Harnesses: quick %s; thorough adds %s"%(notes.get(pid,''),', '.join(quick),', '.join(thor) or 'nothing'),
       "design_ref":"DESIGN.md section 7 %s and section 12"%pid},
     "level_note":"bounds and what lies outside them are listed per harness in the evidence file; trusted base: the SSA interpreter (validated on every run by native replay of path witnesses), z3 5.1/4.8.12 and cvc5 1.0, the listed stubs (fmt, reflectlite, unsafe views), uninterpreted float mul/div/sqrt outside the exact lattice domain",
     "technique":"symbolic execution of go/ssa + SMT (z3/cvc5), bounded"})
m={
 "version":1,
 "setup_cmd":"cd /verif/engine && GOFLAGS=-mod=mod GOPROXY=off GOSUMDB=off GOTOOLCHAIN=local go build -o /verif/bin/gosym ./cmd/gosym",
 "hooks":{"guard":"verif","enable":"harness files (//go:build verif) are injected into /repo/geom and /repo/rtree through go/packages Overlay (engine) and go test -overlay -tags verif (native replay); nothing is written into /repo and no hook is committed there",
   "baseline_off_cmd":"for m in $(cat /w/out/gomods.txt); do MF=$(cd /repo/$m && . /w/out/goenv.sh && gomodflag); (cd /repo/$m && go test $MF -json -vet=off -count=1 -timeout 25m ./...); done",
   "source_commits":[],"add_only":True},
 "engines":[{"name":"gosym","path":"/verif/engine","serves_properties":sorted(byprop.keys()),"kind_free_text":"symbolic executor for go/ssa (fork of x/tools go/ssa/interp with SMT-term scalars), path exploration by re-execution with decision prefixes, z3/z3-new/cvc5 portfolio, native replay of solver models"}],
 "checks":checks,
 "not_applicable":[{"property_id":"C19","reason":"map projections are compositions of sin/cos/tan/atan/log/exp/sqrt/pow with numeric-tolerance claims: SMT-LIB has no semantics for them and float multiplication proofs are out of solver reach (DESIGN section 8)"}],
 "notes":"fix: commits in /repo repair the defects found by the checks (see /verif/known_findings.json)"
}
for p in props:
    if p['id'] not in byprop and p['id']!='C19':
        m['not_applicable'].append({"property_id":p['id'],"reason":"no check built yet"})
json.dump(m,open('/verif/MANIFEST.json','w'),indent=1)
print(len(checks),'checks')
