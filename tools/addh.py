#!/usr/bin/env python3
# usage: addh.py '<json list of harness dicts>'  -- adds/replaces by name in harness/harnesses.json
import json,sys
p='/verif/harness/harnesses.json'
hs=json.load(open(p))
new=json.loads(sys.stdin.read())
names={h['name'] for h in new}
hs=[h for h in hs if h['name'] not in names]+new
json.dump(hs,open(p,'w'),indent=1)
print(len(hs),'harnesses')
