#!/bin/sh
# run every registered quick check, log times
cd /verif
tier=${1:-quick}
for p in $(python3 -c "import json;print(' '.join(c['property_id'] for c in json.load(open('MANIFEST.json'))['checks']))"); do
  s=$(date +%s)
  ./check $p --tier $tier > /tmp/check_$p.log 2>&1
  rc=$?
  e=$(date +%s)
  echo "$p rc=$rc $((e-s))s $(grep '^property' /tmp/check_$p.log | cut -c1-160)"
done
