#!/bin/bash
# evalmut2.sh <worktree-id> <property> [tier]: like evalmut.sh, but runs the check against a scratch
# worktree (${SNAP:-/tmp/snap2}) with the change applied, so /repo is never touched
export GOFLAGS=-mod=mod GOPROXY=off GOSUMDB=off GOTOOLCHAIN=local
id=$1; prop=$2; tier=${3:-quick}
wt=/tmp/mut/$id
out=/verif/seeded/$id
mkdir -p $out
cd $wt || exit 2
cp mutation_out/patch.diff mutation_out/demo_test.go mutation_out/notes.md $out/ 2>/dev/null
pkg=geom; grep -q "^package rtree" mutation_out/demo_test.go && pkg=rtree
t1=$(go test -vet=off -count=1 ./geom/... ./rtree/... ./carto/... 2>&1 | tail -5 | tr '\n' ' ')
echo "$t1" | grep -q FAIL && suite=FAIL || suite=pass
cp mutation_out/demo_test.go $pkg/zz_demo_test.go
go test -vet=off -count=1 -run "$(grep -o 'func Test[A-Za-z0-9_]*' mutation_out/demo_test.go | sed 's/func //' | paste -sd'|')" ./$pkg > /tmp/evalmut_demo1_$id.log 2>&1 && demo_with=pass || demo_with=FAIL
git diff > /tmp/evalmut_cur_$id.diff; git apply -R /tmp/evalmut_cur_$id.diff
go test -vet=off -count=1 -run "$(grep -o 'func Test[A-Za-z0-9_]*' mutation_out/demo_test.go | sed 's/func //' | paste -sd'|')" ./$pkg > /tmp/evalmut_demo2_$id.log 2>&1 && demo_without=pass || demo_without=FAIL
git apply /tmp/evalmut_cur_$id.diff
rm -f $pkg/zz_demo_test.go
echo "[$id] suite_with_change=$suite demo_with_change=$demo_with demo_without_change=$demo_without"
[ -d ${SNAP:-/tmp/snap2} ] || git -C /repo worktree add --detach -q ${SNAP:-/tmp/snap2} HEAD
git -C ${SNAP:-/tmp/snap2} checkout -q --detach $(git -C /repo rev-parse HEAD) && git -C ${SNAP:-/tmp/snap2} checkout -- .
git -C ${SNAP:-/tmp/snap2} apply $out/patch.diff || { echo "[$id] patch does not apply to HEAD"; exit 2; }
cd /verif
s=$(date +%s)
/verif/bin/gosym check -repo ${SNAP:-/tmp/snap2} --tier $tier --no-evidence $prop > /tmp/evalmut_$id.log 2>&1; rc=$?
e=$(date +%s)
git -C ${SNAP:-/tmp/snap2} checkout -- .
viol=$(grep -c '^VIOLATION' /tmp/evalmut_$id.log)
echo "[$id] check $prop tier=$tier rc=$rc violations=$viol time=$((e-s))s : $(grep '^VIOLATION' -A1 /tmp/evalmut_$id.log | grep harness= | head -2 | cut -c1-200 | tr '\n' ' ')"
cat > $out/meta.json <<EOM
{"property": "$prop", "worktree_id": "$id", "suite_with_change": "$suite", "demo_with_change": "$demo_with", "demo_without_change": "$demo_without",
 "check_cmd": "gosym check -repo <scratch worktree with the change> --tier $tier $prop", "check_rc": $rc, "check_violations": $viol, "check_seconds": $((e-s))}
EOM
