#!/bin/bash
# trymut.sh <seeded-id> <property> [--only harness] : apply a stored seeded change to /repo, run the check, undo
id=$1; prop=$2; shift 2
cd /verif
git -C /repo diff --quiet || { echo "/repo is dirty"; exit 2; }
git -C /repo apply /verif/seeded/$id/patch.diff || { echo "patch does not apply"; exit 2; }
s=$(date +%s)
./check $prop --no-evidence "$@" > /tmp/trymut_$id.log 2>&1; rc=$?
e=$(date +%s)
git -C /repo checkout -- .
echo "[$id] check $prop $* rc=$rc violations=$(grep -c '^VIOLATION' /tmp/trymut_$id.log) time=$((e-s))s"
grep '^VIOLATION' -A1 /tmp/trymut_$id.log | grep harness= | head -3 | cut -c1-260
