#!/bin/bash
# regress_seeded.sh: apply every stored seeded change to /repo in turn, run the quick check of its property, undo; print a table
cd /verif
git -C /repo diff --quiet || { echo "/repo is dirty"; exit 2; }
for d in seeded/*/; do
  id=$(basename $d)
  prop=$(python3 -c "import json;print(json.load(open('$d/meta.json'))['property'])")
  if ! git -C /repo apply --check /verif/$d/patch.diff 2>/dev/null; then echo "$id $prop DOES-NOT-APPLY"; continue; fi
  git -C /repo apply /verif/$d/patch.diff
  s=$(date +%s)
  ./check $prop --no-evidence > /tmp/regress_$id.log 2>&1; rc=$?
  e=$(date +%s)
  git -C /repo checkout -- .
  echo "$id $prop rc=$rc violations=$(grep -c '^VIOLATION' /tmp/regress_$id.log) $((e-s))s $(grep '^VIOLATION' -A1 /tmp/regress_$id.log | grep -o 'harness=[A-Za-z0-9_]*' | sort -u | tr '\n' ' ')"
done
