#!/bin/bash
# regress_seeded2.sh [from-id]: apply every stored seeded change to a scratch worktree of /repo's HEAD in turn
# and run the quick check of its property against that worktree; /repo itself is not touched
export GOFLAGS=-mod=mod GOPROXY=off GOSUMDB=off GOTOOLCHAIN=local
cd /verif
wt=/tmp/snap3
[ -d $wt ] || git -C /repo worktree add --detach -q $wt HEAD
git -C $wt checkout -q -- . ; git -C $wt checkout -q --detach $(git -C /repo rev-parse HEAD)
from=$1; go=0; [ -z "$from" ] && go=1
for d in seeded/*/; do
  id=$(basename $d)
  [ "$id" = "$from" ] && go=1
  [ $go = 1 ] || continue
  prop=$(python3 -c "import json;print(json.load(open('$d/meta.json'))['property'])")
  if ! git -C $wt apply --check /verif/$d/patch.diff 2>/dev/null; then echo "$id $prop DOES-NOT-APPLY"; continue; fi
  git -C $wt apply /verif/$d/patch.diff
  s=$(date +%s)
  /verif/bin/gosym check -repo $wt --no-evidence -workers 6 $prop > /tmp/regress_$id.log 2>&1; rc=$?
  e=$(date +%s)
  git -C $wt checkout -q -- .
  echo "$id $prop rc=$rc violations=$(grep -c '^VIOLATION' /tmp/regress_$id.log) $((e-s))s $(grep '^VIOLATION' -A1 /tmp/regress_$id.log | grep -o 'harness=[A-Za-z0-9_]*' | sort -u | tr '\n' ' ')"
done
