package main

import (
	"bytes"
	"encoding/json"
	"flag"
	"fmt"
	"math/rand"
	"os"
	"os/exec"
	"path/filepath"
	"sort"
	"strconv"
	"strings"
	"time"

	"verif/engine/sym"
)

// Harness describes one symbolic harness (harness/harnesses.json).
type Harness struct {
	Name         string            `json:"name"`     // key in vfHarnesses
	Property     string            `json:"property"` // C01..C20
	Pkg          string            `json:"pkg"`      // geom | rtree
	Func         string            `json:"func"`
	Tier         string            `json:"tier"` // quick | thorough
	Kind         string            `json:"kind"` // property | lemma
	Lift         string            `json:"lift,omitempty"`
	Domain       string            `json:"domain"` // BV | FP | EXACT | mixed
	Bounds       string            `json:"bounds"`
	Outside      string            `json:"outside,omitempty"`
	Reach        []string          `json:"reach"`
	Merge        []string          `json:"merge,omitempty"`
	Hunt         bool              `json:"hunt,omitempty"`
	Unwind       int               `json:"unwind,omitempty"`
	MaxPicks     int               `json:"max_picks,omitempty"`
	AllocBudget  int64             `json:"alloc_budget,omitempty"`
	MaxPaths     int               `json:"max_paths,omitempty"`
	DeadlineSec  int               `json:"deadline_sec,omitempty"`
	MapOrders    []string          `json:"map_orders,omitempty"`
	AbstractConv bool              `json:"abstract_conv,omitempty"`
	IntLattice   bool              `json:"int_lattice,omitempty"`
	Stubs        map[string]string `json:"stubs,omitempty"`
	// Seeds: concrete inputs replayed natively (expected to pass); they
	// witness reachability of the labels for harnesses whose solver models go
	// through uninterpreted functions and are therefore not replayable.
	Seeds    []map[string]string `json:"seeds,omitempty"`
	Disabled bool                `json:"disabled,omitempty"`
}

type KnownFinding struct {
	ID          string `json:"id"`
	Property    string `json:"property"`
	Status      string `json:"status"` // open | fixed
	Harness     string `json:"harness,omitempty"`
	Kind        string `json:"kind,omitempty"`
	Match       string `json:"match,omitempty"` // substring of the violation label/site
	Description string `json:"description"`
	Witness     string `json:"witness,omitempty"`
	Commit      string `json:"commit,omitempty"`
}

type witness struct {
	Harness string            `json:"harness"`
	Inputs  map[string]string `json:"inputs"`
	// bookkeeping (ignored by the native side)
	Expect   string            `json:"expect,omitempty"`
	Label    string            `json:"label,omitempty"`
	Reached  []string          `json:"reached,omitempty"`
	Observed []sym.ObservedVal `json:"observed,omitempty"`
	Trace    string            `json:"trace,omitempty"`
	Property string            `json:"property,omitempty"`
	Pkg      string            `json:"pkg,omitempty"`
	Kind     string            `json:"kind,omitempty"`
	Repeat   int               `json:"repeat,omitempty"` // schedule witnesses: native runs until one fails
}

type nativeOutcome struct {
	Index    int         `json:"index"`
	Harness  string      `json:"harness"`
	Outcome  string      `json:"outcome"`
	Msg      string      `json:"msg"`
	Reached  []string    `json:"reached"`
	Observed [][3]string `json:"observed"`
	AllocMB  float64     `json:"alloc_mb"`
}

func loadHarnesses(verif string) ([]Harness, error) {
	var hs []Harness
	files, _ := filepath.Glob(filepath.Join(verif, "harness", "harnesses*.json"))
	sort.Strings(files)
	for _, f := range files {
		data, err := os.ReadFile(f)
		if err != nil {
			return nil, err
		}
		var part []Harness
		if err := json.Unmarshal(data, &part); err != nil {
			return nil, fmt.Errorf("%s: %v", f, err)
		}
		hs = append(hs, part...)
	}
	return hs, nil
}

func loadKnown(verif string) []KnownFinding {
	data, err := os.ReadFile(filepath.Join(verif, "known_findings.json"))
	if err != nil {
		return nil
	}
	var k struct {
		Findings []KnownFinding `json:"findings"`
	}
	if json.Unmarshal(data, &k) != nil {
		return nil
	}
	return k.Findings
}

func pkgPath(p string) string { return "github.com/peterstace/simplefeatures/" + p }

// modelWitness turns a solver model into native inputs.
func modelWitness(h string, inputs []sym.InputDecl, m sym.Model) (witness, bool) {
	w := witness{Harness: h, Inputs: map[string]string{}}
	ok := true
	for _, in := range inputs {
		v, have := m[in.Var]
		if !have {
			continue
		}
		switch in.Kind {
		case "bool":
			if v.B {
				w.Inputs[in.Name] = "1"
			} else {
				w.Inputs[in.Name] = "0"
			}
		case "lattice":
			if v.R == nil || !v.R.IsInt() {
				ok = false
				continue
			}
			w.Inputs[in.Name] = v.R.Num().String()
		case "float64bits":
			w.Inputs[in.Name] = fmt.Sprintf("0x%016x", v.U)
		case "int", "int64":
			w.Inputs[in.Name] = strconv.FormatInt(int64(v.U), 10)
		case "uint64":
			w.Inputs[in.Name] = fmt.Sprintf("0x%x", v.U)
		default:
			w.Inputs[in.Name] = strconv.FormatUint(v.U, 10)
		}
	}
	return w, ok
}

// nativeReplay runs the witnesses against the natively compiled real code.
// Witnesses expected to pass run in one process; witnesses of violations run
// one process each under an address-space limit, so that a decoder that takes
// the process down (fatal out-of-memory) is observed as outcome "crash".
func nativeReplay(repo, verif, pkg string, ws []witness) ([]nativeOutcome, error) {
	if len(ws) == 0 {
		return nil, nil
	}
	tmp, err := os.MkdirTemp("", "vfreplay")
	if err != nil {
		return nil, err
	}
	defer os.RemoveAll(tmp)
	ov, err := buildOverlay(repo, verif)
	if err != nil {
		return nil, err
	}
	tt, err := os.ReadFile(filepath.Join(verif, "harness", "replay_test.go.tmpl"))
	if err != nil {
		return nil, err
	}
	ov[filepath.Join(repo, pkg, "zz_verif_replay_test.go")] = bytes.ReplaceAll(tt, []byte("PKGNAME"), []byte(pkg))
	repl := map[string]string{}
	n := 0
	for virt, data := range ov {
		n++
		real := filepath.Join(tmp, fmt.Sprintf("f%d_%s", n, filepath.Base(virt)))
		if err := os.WriteFile(real, data, 0o644); err != nil {
			return nil, err
		}
		repl[virt] = real
	}
	ovj, _ := json.Marshal(map[string]interface{}{"Replace": repl})
	ovPath := filepath.Join(tmp, "overlay.json")
	os.WriteFile(ovPath, ovj, 0o644)
	bin := filepath.Join(tmp, "replay.test")
	cmd := exec.Command("go", "test", "-c", "-tags", "verif", "-overlay", ovPath, "-vet=off", "-o", bin, "./"+pkg)
	cmd.Dir = repo
	cmd.Env = append(os.Environ(), "GOFLAGS=-mod=mod", "GOPROXY=off", "GOSUMDB=off", "GOTOOLCHAIN=local")
	if out, err := cmd.CombinedOutput(); err != nil {
		return nil, fmt.Errorf("native replay build failed: %v\n%s", err, tail(string(out), 3000))
	}
	runBatch := func(id string, batch []witness, limitKB int) ([]nativeOutcome, string, error) {
		wj, _ := json.Marshal(batch)
		wPath := filepath.Join(tmp, "w"+id+".json")
		os.WriteFile(wPath, wj, 0o644)
		outPath := filepath.Join(tmp, "o"+id+".json")
		sh := fmt.Sprintf("ulimit -v %d; exec %s -test.run '^TestVerifReplay$' -test.count=1 -test.timeout=20m", limitKB, bin)
		c := exec.Command("sh", "-c", sh)
		c.Dir = filepath.Join(repo, pkg)
		c.Env = append(os.Environ(), "VERIF_REPLAY="+wPath, "VERIF_OUT="+outPath)
		out, err := c.CombinedOutput()
		data, rerr := os.ReadFile(outPath)
		if rerr != nil {
			return nil, firstLines(string(out), 3), fmt.Errorf("no result: %v", err)
		}
		var outs []nativeOutcome
		if err := json.Unmarshal(data, &outs); err != nil {
			return nil, "", err
		}
		return outs, "", nil
	}
	res := make([]nativeOutcome, len(ws))
	var safeIdx []int
	var safe []witness
	var risky []int
	for k, w := range ws {
		if w.Expect == "ok" {
			safeIdx = append(safeIdx, k)
			safe = append(safe, w)
		} else {
			risky = append(risky, k)
		}
	}
	if len(safe) > 0 {
		outs, msg, err := runBatch("safe", safe, 16<<20)
		if err != nil {
			return nil, fmt.Errorf("native replay of passing paths crashed: %v: %s", err, msg)
		}
		for k, o := range outs {
			res[safeIdx[k]] = o
		}
	}
	type job struct{ k int }
	jobs := make(chan int)
	done := make(chan bool)
	nw := 6
	for w := 0; w < nw; w++ {
		go func() {
			for k := range jobs {
				outs, msg, err := runBatch(fmt.Sprint("r", k), []witness{ws[k]}, 6<<20)
				if err != nil || len(outs) != 1 {
					res[k] = nativeOutcome{Index: k, Harness: ws[k].Harness, Outcome: "crash", Msg: msg}
				} else {
					res[k] = outs[0]
				}
			}
			done <- true
		}()
	}
	for _, k := range risky {
		jobs <- k
	}
	close(jobs)
	for w := 0; w < nw; w++ {
		<-done
	}
	return res, nil
}

func firstLines(s string, n int) string {
	ls := strings.Split(s, "\n")
	if len(ls) > n {
		ls = ls[:n]
	}
	return strings.Join(ls, " | ")
}

func tail(s string, n int) string {
	if len(s) > n {
		return s[len(s)-n:]
	}
	return s
}

type evidence struct {
	PropertyID  string                 `json:"property_id"`
	Tier        string                 `json:"tier"`
	Seed        int64                  `json:"seed"`
	Level       string                 `json:"level"`
	Coverage    map[string]interface{} `json:"coverage"`
	Assumptions []string               `json:"assumptions"`
	WallS       float64                `json:"wall_s"`
	Violations  int                    `json:"violations"`
}

func cmdCheck(args []string) int {
	fs := flag.NewFlagSet("check", flag.ExitOnError)
	repo := fs.String("repo", "/repo", "repository root")
	verif := fs.String("verif", "/verif", "verif root")
	tier := fs.String("tier", "quick", "quick|thorough")
	replay := fs.String("replay", "", "replay a witness file natively")
	only := fs.String("only", "", "run only this harness")
	workers := fs.Int("workers", 0, "workers")
	noEvidence := fs.Bool("no-evidence", false, "do not write the evidence file")
	fs.Parse(args)
	if fs.NArg() < 1 {
		fmt.Fprintln(os.Stderr, "usage: gosym check [flags] <property>")
		return 3
	}
	prop := fs.Arg(0)
	if t := os.Getenv("VERIF_TIER"); t != "" && !isFlagSet(fs, "tier") {
		*tier = t
	}
	seed := int64(1)
	if s := os.Getenv("VERIF_SEED"); s != "" {
		if v, err := strconv.ParseInt(s, 10, 64); err == nil {
			seed = v
		}
	}
	if *replay != "" {
		return doReplay(*repo, *verif, prop, *replay)
	}
	t0 := time.Now()
	hs, err := loadHarnesses(*verif)
	if err != nil {
		fmt.Println("ERROR harness table:", err)
		return 3
	}
	var sel []Harness
	for _, h := range hs {
		if h.Property != prop || h.Disabled {
			continue
		}
		if *only != "" && h.Name != *only {
			continue
		}
		if h.Tier == "thorough" && *tier != "thorough" {
			continue
		}
		sel = append(sel, h)
	}
	if len(sel) == 0 {
		fmt.Printf("ERROR no harness for property %s\n", prop)
		return 3
	}
	ov, err := buildOverlay(*repo, *verif)
	if err != nil {
		fmt.Println("ERROR overlay:", err)
		return 3
	}
	eng, err := sym.Load(*repo, ov, "verif", "./geom", "./rtree")
	if err != nil {
		fmt.Println("ERROR load (harness does not build against the current tree):", err)
		return 3
	}
	known := loadKnown(*verif)
	rng := rand.New(rand.NewSource(seed))

	type hrun struct {
		h  Harness
		rs []*sym.HarnessResult
	}
	var runs []hrun
	for _, h := range sel {
		orders := []string{""}
		orders = append(orders, h.MapOrders...)
		r := hrun{h: h}
		for _, mo := range orders {
			spec := sym.HarnessSpec{Name: h.Name, Pkg: pkgPath(h.Pkg), Func: h.Func, Workers: *workers,
				MaxPaths: h.MaxPaths, HuntMode: h.Hunt, MapOrder: mo}
			if h.DeadlineSec > 0 {
				spec.Deadline = time.Duration(h.DeadlineSec) * time.Second
			} else if *tier == "quick" {
				spec.Deadline = 10 * time.Minute
			}
			spec.Cfg.Unwind = h.Unwind
			spec.Cfg.MaxPicks = h.MaxPicks
			spec.Cfg.AllocBudget = h.AllocBudget
			spec.Cfg.AbstractConv = h.AbstractConv
			spec.Cfg.IntLattice = h.IntLattice
			spec.Stubs = h.Stubs
			spec.Cfg.Merge = map[string]bool{}
			for _, m := range h.Merge {
				spec.Cfg.Merge[m] = true
			}
			hr := eng.Run(spec)
			r.rs = append(r.rs, hr)
			fmt.Printf("harness %-28s paths=%-6d %v queries=%d wall=%.1fs exhaustive=%v\n", h.Name+mo, len(hr.Paths), hr.Counts, hr.Stats.Queries, hr.Wall.Seconds(), hr.Exhaustive)
			if hr.EngineError != "" {
				fmt.Printf("ERROR engine: %s\n", hr.EngineError)
				return 3
			}
		}
		runs = append(runs, r)
	}

	// ---- collect witnesses: violations first, then path samples
	perPkg := map[string][]witness{}
	type vref struct {
		v   sym.Violation
		h   Harness
		pkg string
		idx int
	}
	var vrefs []vref
	var noWitness [][3]string // harness, kind, label of symbolic violations without a replayable model
	type pref struct {
		p   *sym.PathResult
		h   Harness
		pkg string
		idx int
	}
	var prefs []pref
	sampleCap := 60
	if *tier == "thorough" {
		sampleCap = 400
	}
	if n, err := strconv.Atoi(os.Getenv("VERIF_SAMPLE_CAP")); err == nil && n > 0 {
		sampleCap = n // development: replay more (or all) passing paths natively
	}
	inconclusive := []string{}
	for _, r := range runs {
		for _, hr := range r.rs {
			perKey := map[string]int{}
			for _, v := range hr.Violations {
				if strings.HasPrefix(v.Kind, "spurious-") {
					continue
				}
				vk := v.Kind + "|" + v.Label
				perKey[vk]++
				// a counterexample through uninterpreted values need not be a real
				// execution: replay more of them, any that reproduces counts
				if lim := 2 + 10*b2i(v.UsedUF); perKey[vk] > lim {
					continue
				}
				if v.Model == nil {
					inconclusive = append(inconclusive, fmt.Sprintf("%s: %s %q: no model", r.h.Name, v.Kind, v.Label))
					continue
				}
				w, ok := modelWitness(r.h.Name, v.Inputs, v.Model)
				if !ok {
					// the real relaxation has a counterexample but no lattice witness was
					// found: a hand-written seed that fails natively can still confirm it
					noWitness = append(noWitness, [3]string{r.h.Name, v.Kind, v.Label})
					continue
				}
				w.Expect, w.Label, w.Trace, w.Property, w.Pkg, w.Kind = v.Kind, v.Label, decs(v.Trace), prop, r.h.Pkg, r.h.Kind
				if len(r.h.MapOrders) > 0 {
					// the native runtime randomises map iteration: repeat until it shows
					w.Repeat = 2000
				}
				vrefs = append(vrefs, vref{v, r.h, r.h.Pkg, len(perPkg[r.h.Pkg])})
				perPkg[r.h.Pkg] = append(perPkg[r.h.Pkg], w)
			}
			// sample of completed paths for translator validation (always incl. one per reach label)
			var cands []*sym.PathResult
			for _, p := range hr.Paths {
				if p.Outcome == "ok" && p.Model == nil && p.PCSize == 0 {
					p.Model = sym.Model{} // a path without any constraint: every input is a witness
				}
				if (p.Outcome == "ok") && p.Model != nil {
					cands = append(cands, p)
				}
			}
			rng.Shuffle(len(cands), func(a, b int) { cands[a], cands[b] = cands[b], cands[a] })
			need := map[string]bool{}
			for _, l := range r.h.Reach {
				need[l] = true
			}
			for k, sd := range r.h.Seeds {
				w := witness{Harness: r.h.Name, Inputs: sd, Expect: "ok", Kind: "seed", Trace: fmt.Sprint("seed", k)}
				prefs = append(prefs, pref{nil, r.h, r.h.Pkg, len(perPkg[r.h.Pkg])})
				perPkg[r.h.Pkg] = append(perPkg[r.h.Pkg], w)
			}
			taken := 0
			for _, p := range cands {
				useful := false
				for _, l := range p.Reached {
					if need[l] {
						useful = true
						delete(need, l)
					}
				}
				if !useful && taken >= sampleCap {
					continue
				}
				w, ok := modelWitness(r.h.Name, p.Inputs, p.Model)
				if !ok {
					continue
				}
				w.Expect, w.Reached, w.Observed, w.Trace = "ok", p.Reached, p.Observed, decs(p.Trace)
				if len(p.UFUsed) > 0 || len(p.Inexact) > 0 {
					w.Kind = "uf"
				}
				prefs = append(prefs, pref{p, r.h, r.h.Pkg, len(perPkg[r.h.Pkg])})
				perPkg[r.h.Pkg] = append(perPkg[r.h.Pkg], w)
				taken++
			}
		}
	}
	outs := map[string][]nativeOutcome{}
	for pkg, ws := range perPkg {
		o, err := nativeReplay(*repo, *verif, pkg, ws)
		if err != nil {
			fmt.Println("ERROR", err)
			return 3
		}
		outs[pkg] = o
	}

	// ---- translator validation
	symViol := map[string]bool{} // harness|kind with a symbolic violation
	for _, vr := range vrefs {
		symViol[vr.h.Name+"|"+vr.v.Kind] = true
	}
	for _, nw := range noWitness {
		symViol[nw[0]+"|"+nw[1]] = true
	}
	seedFail := map[string]int{} // harness|kind -> witness index of a natively failing seed
	var nativeOnly []pref
	validated, disagreements, seedsOK := 0, 0, 0
	nativeReached := map[string]map[string]bool{}
	var disagreeMsgs []string
	skippedUF := 0
	for _, pr := range prefs {
		o := outs[pr.pkg][pr.idx]
		wk := perPkg[pr.pkg][pr.idx].Kind
		if wk == "seed" {
			if (o.Outcome == "assert" || o.Outcome == "panic") && symViol[pr.h.Name+"|"+o.Outcome] {
				// the symbolic run reports a violation of this kind on this harness and the
				// hand-written input shows one on the real build: that is the
				// reproduction (used when the solver's own models run through
				// uninterpreted values and need not be real executions)
				seedFail[pr.h.Name+"|"+o.Outcome] = pr.idx
				continue
			}
			if o.Outcome != "ok" {
				disagreements++
				disagreeMsgs = append(disagreeMsgs, fmt.Sprintf("%s seed %v: native %s %q", pr.h.Name, perPkg[pr.pkg][pr.idx].Inputs, o.Outcome, o.Msg))
				continue
			}
			seedsOK++
			if nativeReached[pr.h.Name] == nil {
				nativeReached[pr.h.Name] = map[string]bool{}
			}
			for _, l := range o.Reached {
				nativeReached[pr.h.Name][l] = true
			}
			continue
		}
		if wk == "uf" {
			// the model interprets uninterpreted functions freely: it need not be
			// a real execution; only an agreeing replay counts
			exp := strings.Join(pr.p.Reached, ",")
			if o.Outcome == "ok" && exp == strings.Join(uniqSorted(o.Reached), ",") {
				validated++
			} else {
				skippedUF++
			}
			continue
		}
		okk := o.Outcome == "ok"
		if okk {
			exp := append([]string{}, pr.p.Reached...)
			got := uniqSorted(o.Reached)
			if strings.Join(exp, ",") != strings.Join(got, ",") {
				okk = false
			}
			if len(o.Observed) != len(pr.p.Observed) {
				okk = false
			} else {
				for k, ov := range pr.p.Observed {
					if ov.Val == "" {
						continue
					}
					if o.Observed[k][0] != ov.Label || o.Observed[k][2] != ov.Val {
						okk = false
					}
				}
			}
		}
		if okk {
			validated++
			if nativeReached[pr.h.Name] == nil {
				nativeReached[pr.h.Name] = map[string]bool{}
			}
			for _, l := range o.Reached {
				nativeReached[pr.h.Name][l] = true
			}
		} else if (o.Outcome == "assert" || o.Outcome == "panic" || o.Outcome == "crash") && pr.h.Kind != "lemma" {
			// the real build fails the harness on a concrete input although the
			// symbolic run of the same path passed: something the engine's model
			// abstracts (documented: unsafe views are snapshots, so memory shared
			// between a decoded value and its input buffer is invisible to it) matters
			// here. The concrete failing run is the evidence; it is reported as a
			// violation found by replay, not hidden behind an engine error.
			nativeOnly = append(nativeOnly, pr)
		} else {
			disagreements++
			if len(disagreeMsgs) < 5 {
				disagreeMsgs = append(disagreeMsgs, fmt.Sprintf("%s trace=%s: symbolic ok reached=%v observed=%v / native %s %q reached=%v observed=%v",
					pr.h.Name, decs(pr.p.Trace), pr.p.Reached, pr.p.Observed, o.Outcome, o.Msg, o.Reached, o.Observed))
			}
		}
	}

	// ---- violations
	os.MkdirAll(filepath.Join(*verif, "replays", prop), 0o755)
	exit := 0
	nViol := 0
	spurious := 0
	seenKnown := map[string]bool{}
	reported := map[string]bool{}
	var violSamples []interface{}
	for _, vr := range vrefs {
		o := outs[vr.pkg][vr.idx]
		repro := false
		switch vr.v.Kind {
		case "assert":
			repro = o.Outcome == "assert" && o.Msg == vr.v.Label
		case "panic":
			repro = o.Outcome == "panic" || o.Outcome == "crash"
		case "alloc":
			repro = o.AllocMB*(1<<20) > float64(vr.h.AllocBudget) || o.Outcome == "panic" || o.Outcome == "crash"
		case "frozen-write":
			// a write into caller-owned memory is visible natively only through
			// the harness' own re-read assertions; report the symbolic finding
			repro = true
		}
		if !repro && vr.v.UsedUF {
			if si, ok := seedFail[vr.h.Name+"|"+vr.v.Kind]; ok {
				so := outs[vr.pkg][si]
				if vr.v.Kind != "assert" || so.Msg == vr.v.Label {
					repro, o = true, so
					vr.idx = si
				}
			}
		}
		if !repro {
			spurious++
			msg := fmt.Sprintf("%s: %s %q did not reproduce natively (native: %s %q); UF/inexact on path: %v", vr.h.Name, vr.v.Kind, vr.v.Label, o.Outcome, o.Msg, vr.v.UsedUF)
			inconclusive = append(inconclusive, msg)
			continue
		}
		// lemma-level findings are reported as inconclusive lemma failures unless lifted
		if vr.h.Kind == "lemma" {
			fmt.Printf("INCONCLUSIVE lemma=%s %s %q reproduced on the internal function; public lifting: %s\n", vr.h.Name, vr.v.Kind, vr.v.Label, vr.h.Lift)
			inconclusive = append(inconclusive, fmt.Sprintf("lemma %s violated: %s %q", vr.h.Name, vr.v.Kind, vr.v.Label))
			continue
		}
		key := vr.h.Name + "|" + vr.v.Kind + "|" + vr.v.Label
		// known finding?
		matched := false
		for _, k := range known {
			if k.Status != "open" || k.Property != prop {
				continue
			}
			if k.Harness != "" && k.Harness != vr.h.Name {
				continue
			}
			if k.Kind != "" && k.Kind != vr.v.Kind {
				continue
			}
			if k.Match != "" && !strings.Contains(vr.v.Label+" "+o.Msg, k.Match) {
				continue
			}
			matched = true
			if !seenKnown[k.ID] {
				seenKnown[k.ID] = true
				fmt.Printf("KNOWN-FINDING: property=%s %s: %s\n", prop, k.ID, k.Description)
			}
		}
		if matched {
			continue
		}
		nViol++
		if reported[key] {
			continue
		}
		reported[key] = true
		w := perPkg[vr.pkg][vr.idx]
		name := fmt.Sprintf("%s-%s-%d.json", vr.h.Name, vr.v.Kind, len(reported))
		path := filepath.Join(*verif, "replays", prop, name)
		wj, _ := json.MarshalIndent(w, "", " ")
		os.WriteFile(path, wj, 0o644)
		fmt.Printf("VIOLATION property=%s replay=%s\n", prop, path)
		fmt.Printf("  harness=%s kind=%s label=%q native=%s %q inputs=%v\n", vr.h.Name, vr.v.Kind, vr.v.Label, o.Outcome, o.Msg, w.Inputs)
		violSamples = append(violSamples, w)
		exit = 1
	}

	// failures seen only by the native replay of a symbolically passing path
	for _, pr := range nativeOnly {
		o := outs[pr.pkg][pr.idx]
		key := pr.h.Name + "|native|" + o.Outcome + "|" + o.Msg
		nViol++
		if reported[key] {
			continue
		}
		reported[key] = true
		w := perPkg[pr.pkg][pr.idx]
		w.Expect, w.Label, w.Property, w.Pkg = o.Outcome, o.Msg, prop, pr.h.Pkg
		name := fmt.Sprintf("%s-native-%d.json", pr.h.Name, len(reported))
		path := filepath.Join(*verif, "replays", prop, name)
		wj, _ := json.MarshalIndent(w, "", " ")
		os.WriteFile(path, wj, 0o644)
		fmt.Printf("VIOLATION property=%s replay=%s\n", prop, path)
		fmt.Printf("  harness=%s kind=%s label=%q native=%s %q inputs=%v (found by the native replay of a symbolically passing path: the engine's memory model does not expose it)\n", pr.h.Name, o.Outcome, o.Msg, o.Outcome, o.Msg, w.Inputs)
		violSamples = append(violSamples, w)
		exit = 1
	}

	// symbolic violations whose model could not be turned into a witness: confirmed by a failing seed, or inconclusive
	for _, nw := range noWitness {
		si, ok := seedFail[nw[0]+"|"+nw[1]]
		var h Harness
		for _, r := range runs {
			if r.h.Name == nw[0] {
				h = r.h
			}
		}
		if ok && (nw[1] != "assert" || outs[h.Pkg][si].Msg == nw[2]) && h.Kind != "lemma" {
			key := nw[0] + "|" + nw[1] + "|" + nw[2]
			nViol++
			if reported[key] {
				continue
			}
			reported[key] = true
			w := perPkg[h.Pkg][si]
			w.Expect, w.Label, w.Property, w.Pkg = nw[1], nw[2], prop, h.Pkg
			name := fmt.Sprintf("%s-%s-%d.json", nw[0], nw[1], len(reported))
			path := filepath.Join(*verif, "replays", prop, name)
			wj, _ := json.MarshalIndent(w, "", " ")
			os.WriteFile(path, wj, 0o644)
			o := outs[h.Pkg][si]
			fmt.Printf("VIOLATION property=%s replay=%s\n", prop, path)
			fmt.Printf("  harness=%s kind=%s label=%q native=%s %q inputs=%v (seed input; the solver's counterexample had no lattice witness)\n", nw[0], nw[1], nw[2], o.Outcome, o.Msg, w.Inputs)
			violSamples = append(violSamples, w)
			exit = 1
			continue
		}
		inconclusive = append(inconclusive, fmt.Sprintf("%s: %s %q: non-integral relaxation model", nw[0], nw[1], nw[2]))
	}

	// ---- vacuity
	var vacuous []string
	reachNotReplayed := []string{}
	for _, r := range runs {
		symReached := map[string]bool{}
		cleanReached := map[string]bool{} // reached by a completed path whose model is replayable
		for _, hr := range r.rs {
			for _, p := range hr.Paths {
				if p.Outcome != "ok" {
					continue
				}
				for _, l := range p.Reached {
					symReached[l] = true
					if len(p.UFUsed) == 0 && len(p.Inexact) == 0 {
						cleanReached[l] = true
					}
				}
			}
		}
		partial := false
		for _, hr := range r.rs {
			if !hr.Exhaustive {
				partial = true
			}
		}
		for _, l := range r.h.Reach {
			switch {
			case partial && (!symReached[l] || !nativeReached[r.h.Name][l]):
				// the exploration stopped at its deadline: a label that was not
				// reached (or whose paths were not among those replayed) says
				// nothing about vacuity; reported, not an error
				inconclusive = append(inconclusive, fmt.Sprintf("%s: label %q not reached before the deadline (exploration not exhaustive)", r.h.Name, l))
			case !symReached[l]:
				vacuous = append(vacuous, r.h.Name+":"+l)
			case cleanReached[l] && !nativeReached[r.h.Name][l]:
				vacuous = append(vacuous, r.h.Name+":"+l+" (not reached natively)")
			case !cleanReached[l] && !nativeReached[r.h.Name][l]:
				reachNotReplayed = append(reachNotReplayed, r.h.Name+":"+l)
			}
		}
	}

	// ---- evidence
	states, transitions := 0, int64(0)
	var solverS float64
	counts := map[string]int{}
	funcs := map[string]bool{}
	stubs := map[string]int{}
	ufs := map[string]int{}
	inexact := map[string]int{}
	asserts, discharged := 0, 0
	exhaustive := true
	var harnessInfo []interface{}
	var samples []interface{}
	distinct := map[string]bool{}
	var stats sym.SolverStats
	for _, r := range runs {
		for _, hr := range r.rs {
			states += len(hr.Paths)
			transitions += hr.Stats.Queries
			stats.Sat += hr.Stats.Sat
			stats.Unsat += hr.Stats.Unsat
			stats.Unknown += hr.Stats.Unknown
			stats.Errors += hr.Stats.Errors
			stats.ModelHits += hr.Stats.ModelHits
			stats.NanosZ3 += hr.Stats.NanosZ3
			stats.NanosZ3N += hr.Stats.NanosZ3N
			stats.NanosCVC5 += hr.Stats.NanosCVC5
			if !hr.Exhaustive {
				exhaustive = false
			}
			for k, v := range hr.Counts {
				counts[k] += v
			}
			for f := range hr.Funcs {
				funcs[f] = true
			}
			hc := map[string]int{}
			for _, p := range hr.Paths {
				asserts += p.Asserts
				discharged += p.Discharged
				for k, v := range p.Stubs {
					stubs[k] += v
				}
				for k, v := range p.UFUsed {
					ufs[k] += v
				}
				for k, v := range p.Inexact {
					inexact[k] += v
				}
				for _, m := range p.Inconclusive {
					inconclusive = append(inconclusive, r.h.Name+": "+m)
				}
				if len(p.Trace) > 0 {
					distinct[r.h.Name+decs(p.Trace)] = true
				}
				switch p.Outcome {
				case "unsupported", "unwind", "engine":
					hc[p.Outcome+": "+firstLine(p.Msg)]++
				}
			}
			for k, v := range hc {
				inconclusive = append(inconclusive, fmt.Sprintf("%s: %d path(s) %s", r.h.Name, v, k))
			}
			if len(hr.Paths) > 0 && len(samples) < 12 {
				p := hr.Paths[len(hr.Paths)/2]
				w, _ := modelWitness(r.h.Name, p.Inputs, p.Model)
				samples = append(samples, map[string]interface{}{
					"harness": r.h.Name, "decisions": decs(p.Trace), "outcome": p.Outcome,
					"path_condition_atoms": p.PCSize, "witness": w.Inputs, "reached": p.Reached, "observed": p.Observed,
				})
			}
			harnessInfo = append(harnessInfo, map[string]interface{}{
				"name": r.h.Name, "kind": r.h.Kind, "domain": r.h.Domain, "bounds": r.h.Bounds, "outside": r.h.Outside,
				"paths": len(hr.Paths), "outcomes": hr.Counts, "queries": hr.Stats.Queries, "wall_s": hr.Wall.Seconds(),
				"exhaustive": hr.Exhaustive, "map_order": hr.Spec.MapOrder, "lift": r.h.Lift,
			})
		}
	}
	solverS = float64(stats.NanosZ3+stats.NanosZ3N+stats.NanosCVC5) / 1e9
	var fnames []string
	for f := range funcs {
		if strings.Contains(f, "simplefeatures") {
			fnames = append(fnames, strings.ReplaceAll(f, "github.com/peterstace/simplefeatures/", ""))
		}
	}
	sort.Strings(fnames)
	samples = append(samples, violSamples...)
	ev := evidence{PropertyID: prop, Tier: *tier, Seed: seed, Level: "model_checking", WallS: time.Since(t0).Seconds(), Violations: nViol}
	ev.Coverage = map[string]interface{}{
		"states":                          states,
		"transitions":                     transitions,
		"traces_validated_against_impl":   validated,
		"samples":                         samples,
		"evaluations":                     states,
		"distinct_nontrivial":             len(distinct),
		"rule":                            "one case = one feasible path of a harness through the real SSA (distinct decision sequence); non-trivial = at least one symbolic branch decision",
		"exhaustive":                      exhaustive && len(inconclusive) == 0,
		"explanation":                     "bounded symbolic execution of the real go/ssa of /repo's working tree; every branch feasibility and every assertion decided by an SMT solver over all inputs within the harness bounds; solver models replayed against the native build",
		"harnesses":                       harnessInfo,
		"functions_encoded":               fnames,
		"functions_encoded_total":         len(funcs),
		"path_outcomes":                   counts,
		"assertions_checked":              asserts,
		"assertions_discharged_by_solver": discharged,
		"solver": map[string]interface{}{
			"queries": transitions, "sat": stats.Sat, "unsat": stats.Unsat, "unknown": stats.Unknown, "errors": stats.Errors,
			"branch_sides_decided_by_cached_model": stats.ModelHits,
			"z3_s":                                 float64(stats.NanosZ3) / 1e9, "z3_new_s": float64(stats.NanosZ3N) / 1e9, "cvc5_s": float64(stats.NanosCVC5) / 1e9, "total_s": solverS,
		},
		"stubs_hit":                     stubs,
		"uninterpreted_ops":             ufs,
		"inexact_ops":                   inexact,
		"inconclusive":                  dedup(inconclusive),
		"spurious_models":               spurious,
		"translator_disagreements":      disagreements,
		"uf_path_models_not_replayable": skippedUF,
		"native_seeds_passed":           seedsOK,
		"vacuous_labels":                vacuous,
		"known_findings_observed":       keys(seenKnown),
	}
	ev.Assumptions = []string{
		"64-bit int, little-endian amd64 float semantics without FMA contraction, single goroutine",
		"interpreter (fork of x/tools go/ssa/interp) implements SSA semantics faithfully; validated on every run by native replay of path witnesses",
		"stubs: fmt.Sprintf/Errorf (opaque text, %w kept), reflectlite behind sort.Slice/errors.Is, unsafe.Slice views as read-only snapshots",
		"float64 mul/div/sqrt outside the exact lattice domain are uninterpreted (sound for unsat) unless the harness runs in hunt mode",
		"bounds as stated per harness; nothing is claimed outside them",
	}
	if !*noEvidence {
		os.MkdirAll(filepath.Join(*verif, "evidence"), 0o755)
		ej, _ := json.MarshalIndent(ev, "", " ")
		os.WriteFile(filepath.Join(*verif, "evidence", prop+".json"), ej, 0o644)
	}

	fmt.Printf("property %s tier=%s: paths=%d queries=%d validated=%d violations=%d spurious=%d inconclusive=%d wall=%.1fs\n",
		prop, *tier, states, transitions, validated, nViol, spurious, len(dedup(inconclusive)), time.Since(t0).Seconds())
	for _, m := range dedup(inconclusive) {
		fmt.Printf("INCONCLUSIVE property=%s %s\n", prop, m)
	}
	if disagreements > 0 {
		for _, m := range disagreeMsgs {
			fmt.Println("ERROR translator disagreement:", m)
		}
		if exit == 0 {
			return 3
		}
	}
	if len(vacuous) > 0 {
		fmt.Printf("ERROR vacuous harness labels (never reached natively): %v\n", vacuous)
		if exit == 0 {
			return 3
		}
	}
	return exit
}

func firstLine(s string) string {
	if k := strings.IndexByte(s, '\n'); k >= 0 {
		s = s[:k]
	}
	if len(s) > 200 {
		s = s[:200]
	}
	return s
}

func dedup(ss []string) []string {
	seen := map[string]bool{}
	out := []string{}
	for _, s := range ss {
		if !seen[s] {
			seen[s] = true
			out = append(out, s)
		}
	}
	return out
}

func keys(m map[string]bool) []string {
	out := []string{}
	for k := range m {
		out = append(out, k)
	}
	sort.Strings(out)
	return out
}

func uniqSorted(ss []string) []string {
	m := map[string]bool{}
	for _, s := range ss {
		m[s] = true
	}
	return keys(m)
}

func isFlagSet(fs *flag.FlagSet, name string) bool {
	set := false
	fs.Visit(func(f *flag.Flag) {
		if f.Name == name {
			set = true
		}
	})
	return set
}

// doReplay re-runs a recorded witness against the native build.
func doReplay(repo, verif, prop, path string) int {
	data, err := os.ReadFile(path)
	if err != nil {
		fmt.Println("ERROR", err)
		return 3
	}
	var w witness
	if err := json.Unmarshal(data, &w); err != nil {
		fmt.Println("ERROR", err)
		return 3
	}
	pkg := w.Pkg
	if pkg == "" {
		pkg = "geom"
	}
	outs, err := nativeReplay(repo, verif, pkg, []witness{w})
	if err != nil {
		fmt.Println("ERROR", err)
		return 3
	}
	o := outs[0]
	fmt.Printf("replay harness=%s inputs=%v\n  native outcome=%s msg=%q alloc_mb=%.1f reached=%v\n", w.Harness, w.Inputs, o.Outcome, o.Msg, o.AllocMB, o.Reached)
	if o.Outcome == "assert" || o.Outcome == "panic" || o.Outcome == "crash" || (w.Expect == "alloc" && o.AllocMB > 64) {
		fmt.Printf("VIOLATION property=%s replay=%s\n", prop, path)
		return 1
	}
	return 0
}

func b2i(b bool) int {
	if b {
		return 1
	}
	return 0
}
