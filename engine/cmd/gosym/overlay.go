package main

import (
	"bytes"
	"os"
	"path/filepath"
	"strings"
)

var harnessPkgs = []string{"geom", "rtree"}

// buildOverlay maps virtual harness files into the repository's packages.
func buildOverlay(repo, verif string) (map[string][]byte, error) {
	ov := map[string][]byte{}
	rt, err := os.ReadFile(filepath.Join(verif, "harness", "rt.go.tmpl"))
	if err != nil {
		return nil, err
	}
	for _, p := range harnessPkgs {
		ov[filepath.Join(repo, p, "zz_verif_rt.go")] = bytes.ReplaceAll(rt, []byte("PKGNAME"), []byte(p))
		files, _ := filepath.Glob(filepath.Join(verif, "harness", p, "*.go"))
		for _, f := range files {
			data, err := os.ReadFile(f)
			if err != nil {
				return nil, err
			}
			name := "zz_verif_" + strings.TrimSuffix(filepath.Base(f), ".go") + ".go"
			ov[filepath.Join(repo, p, name)] = data
		}
	}
	return ov, nil
}
