package main

import (
	"flag"
	"fmt"
	"os"
	"sort"
	"strings"
	"time"

	"verif/engine/sym"
)

func main() {
	if len(os.Args) < 2 {
		fmt.Fprintln(os.Stderr, "usage: gosym run|check ...")
		os.Exit(2)
	}
	switch os.Args[1] {
	case "run":
		cmdRun(os.Args[2:])
	case "check":
		os.Exit(cmdCheck(os.Args[2:]))
	default:
		fmt.Fprintln(os.Stderr, "unknown command", os.Args[1])
		os.Exit(2)
	}
}

// cmdRun: debugging entry point: explore one harness and print a summary.
func cmdRun(args []string) {
	fs := flag.NewFlagSet("run", flag.ExitOnError)
	repo := fs.String("repo", "/repo", "repository root")
	verif := fs.String("verif", "/verif", "verif root")
	pkg := fs.String("pkg", "geom", "package (geom|rtree)")
	fn := fs.String("func", "", "harness function")
	workers := fs.Int("workers", 0, "workers")
	maxPaths := fs.Int("max-paths", 0, "max paths")
	trace := fs.Bool("trace", false, "trace instructions")
	hunt := fs.Bool("hunt", false, "hunt mode")
	logSMT := fs.String("log-smt", "", "log solver queries to file")
	unwind := fs.Int("unwind", 0, "loop unwinding cap")
	picks := fs.Int("picks", 0, "max picks")
	alloc := fs.Int64("alloc", 0, "alloc budget")
	merge := fs.String("merge", "", "comma-separated functions to if-convert")
	verbose := fs.Bool("v", false, "print every path")
	absConv := fs.Bool("abstract-conv", false, "float<->int conversions and rounding as UFs")
	stubs := fs.String("stubs", "", "callee=harnessFunc,...")
	intLat := fs.Bool("int-lattice", false, "declare lattice inputs as Int in every query")
	fs.Parse(args)

	ov, err := buildOverlay(*repo, *verif)
	if err != nil {
		fmt.Fprintln(os.Stderr, "ERROR", err)
		os.Exit(3)
	}
	eng, err := sym.Load(*repo, ov, "verif", "./geom", "./rtree")
	if err != nil {
		fmt.Fprintln(os.Stderr, "ERROR load:", err)
		os.Exit(3)
	}
	fmt.Printf("loaded in %v\n", eng.LoadTime)
	spec := sym.HarnessSpec{
		Name: *fn, Pkg: "github.com/peterstace/simplefeatures/" + *pkg, Func: *fn,
		Workers: *workers, MaxPaths: *maxPaths, HuntMode: *hunt, LogSMT: *logSMT,
	}
	spec.Cfg.Tracing = *trace
	spec.Cfg.Unwind = *unwind
	spec.Cfg.MaxPicks = *picks
	spec.Cfg.AllocBudget = *alloc
	spec.Cfg.AbstractConv = *absConv
	spec.Cfg.IntLattice = *intLat
	if *stubs != "" {
		spec.Stubs = map[string]string{}
		for _, kv := range strings.Split(*stubs, ",") {
			if p := strings.SplitN(kv, "=", 2); len(p) == 2 {
				spec.Stubs[p[0]] = p[1]
			}
		}
	}
	spec.Cfg.Merge = map[string]bool{}
	for _, m := range strings.Split(*merge, ",") {
		if m != "" {
			spec.Cfg.Merge[m] = true
		}
	}
	hr := eng.Run(spec)
	printSummary(hr, *verbose)
}

func printSummary(hr *sym.HarnessResult, verbose bool) {
	if hr.EngineError != "" {
		fmt.Println("ENGINE ERROR:", hr.EngineError)
	}
	fmt.Printf("harness %s: paths=%d wall=%v init=%v exhaustive=%v workleft=%d terms=%d\n",
		hr.Spec.Name, len(hr.Paths), hr.Wall.Round(time.Millisecond), hr.InitTime.Round(time.Millisecond), hr.Exhaustive, hr.WorkLeft, hr.TermsMax)
	fmt.Printf("  outcomes: %v\n", hr.Counts)
	s := hr.Stats
	fmt.Printf("  solver: queries=%d sat=%d unsat=%d unknown=%d errors=%d modelhits=%d syntactic=%d z3=%.1fs z3new=%.1fs cvc5=%.1fs\n",
		s.Queries, s.Sat, s.Unsat, s.Unknown, s.Errors, s.ModelHits, s.Syntactic,
		float64(s.NanosZ3)/1e9, float64(s.NanosZ3N)/1e9, float64(s.NanosCVC5)/1e9)
	asserts, disch := 0, 0
	reached := map[string]int{}
	msgs := map[string]int{}
	for _, p := range hr.Paths {
		asserts += p.Asserts
		disch += p.Discharged
		for _, r := range p.Reached {
			reached[r]++
		}
		if p.Outcome != "ok" {
			m := p.Msg
			if len(m) > 300 {
				m = m[:300]
			}
			msgs[p.Outcome+": "+m]++
		}
		if verbose {
			fmt.Printf("  path %-30s %s %s obs=%v\n", decs(p.Trace), p.Outcome, p.Msg, p.Observed)
		}
	}
	fmt.Printf("  asserts=%d discharged-by-solver=%d reached=%v\n", asserts, disch, reached)
	var keys []string
	for k := range msgs {
		keys = append(keys, k)
	}
	sort.Strings(keys)
	for _, k := range keys {
		fmt.Printf("  [%d] %s\n", msgs[k], k)
	}
	for _, v := range hr.Violations {
		fmt.Printf("  VIOLATION kind=%s label=%q model=%v\n", v.Kind, v.Label, modelStr(v))
	}
	fmt.Printf("  functions entered: %d\n", len(hr.Funcs))
}

func decs(ds []sym.Decision) string {
	var sb strings.Builder
	for _, d := range ds {
		sb.WriteString(d.String())
	}
	s := sb.String()
	if len(s) > 60 {
		s = s[:60] + "…"
	}
	return s
}

func modelStr(v sym.Violation) string {
	if v.Model == nil {
		return "<none>"
	}
	var parts []string
	for _, in := range v.Inputs {
		if val, ok := v.Model[in.Var]; ok {
			parts = append(parts, in.Name+"="+valStr(in, val))
		}
	}
	return strings.Join(parts, " ")
}

func valStr(in sym.InputDecl, v sym.Val) string {
	switch in.Kind {
	case "bool":
		return fmt.Sprint(v.B)
	case "lattice":
		if v.R != nil {
			return v.R.RatString()
		}
		return "?"
	case "float64bits":
		return fmt.Sprintf("0x%016x", v.U)
	case "int", "int64":
		return fmt.Sprint(int64(v.U))
	}
	return fmt.Sprintf("0x%x", v.U)
}
