package sym

// Harness intrinsics (vf*): symbolic inputs, assumptions, assertions,
// observation points. The same harness source compiles natively, where these
// functions read a witness file (see harness/rt.go).

import (
	"fmt"
	"go/types"
	"math"
	"math/big"
	"unsafe"
)

var intrinsics map[string]externalFn

func init() {
	intrinsics = map[string]externalFn{
		"vfInt":         vfInt,
		"vfInt64":       vfInt64,
		"vfUint64":      vfUint64,
		"vfUint32":      vfUint32,
		"vfByte":        vfByte,
		"vfBool":        vfBool,
		"vfBytes":       vfBytes,
		"vfFloat64":     vfFloat64,
		"vfLattice":     vfLattice,
		"vfAssume":      vfAssume,
		"vfAssert":      vfAssert,
		"vfReach":       vfReach,
		"vfObserveInt":  vfObserveInt,
		"vfObserveBool": vfObserveBool,
		"vfObserveF64":  vfObserveF64,
		"vfFreeze":      vfFreeze,
		"vfSymbolic":    func(fr *frame, a []value) value { return true },
		"vfNote":        func(fr *frame, a []value) value { return nil },
		"vfSpecSub": func(fr *frame, a []value) value { return vfSpecArith(fr, "-", a) },
		"vfSpecMul": func(fr *frame, a []value) value { return vfSpecArith(fr, "*", a) },
		"vfOpaque":  vfOpaque,
		"vfExistsXY": vfExistsXY,
		"vfMapOrderMark": func(fr *frame, a []value) value {
			fr.i.needPath("vfMapOrderMark")
			fr.i.ps.mapMark = true
			return nil
		},
	}
}

func (i *interpreter) inputName(name string) string {
	ps := i.ps
	n := ps.inputSeq[name]
	ps.inputSeq[name] = n + 1
	if n == 0 {
		return name
	}
	return fmt.Sprintf("%s#%d", name, n)
}

func (i *interpreter) needPath(what string) {
	if i.ps == nil {
		panic(unsupported{what + " outside of a harness path"})
	}
}

func vfInt(fr *frame, a []value) value {
	i := fr.i
	i.needPath("vfInt")
	name := i.inputName(a[0].(string))
	lo, hi := asInt64(a[1]), asInt64(a[2])
	i.ps.inputs = append(i.ps.inputs, InputDecl{Name: name, Kind: "int", Var: name, Lo: lo, Hi: hi})
	if lo == hi {
		return int(lo)
	}
	st := i.st
	v := st.Var(name, SBV(64))
	i.addFact(st.BVCmp("bvsle", st.BVConst(uint64(lo), 64), v))
	i.addFact(st.BVCmp("bvsle", v, st.BVConst(uint64(hi), 64)))
	return sym{v, types.Int}
}

func vfInt64(fr *frame, a []value) value {
	i := fr.i
	i.needPath("vfInt64")
	name := i.inputName(a[0].(string))
	i.ps.inputs = append(i.ps.inputs, InputDecl{Name: name, Kind: "int64", Var: name, Lo: math.MinInt64, Hi: math.MaxInt64})
	return sym{i.st.Var(name, SBV(64)), types.Int64}
}

func vfUint64(fr *frame, a []value) value {
	i := fr.i
	i.needPath("vfUint64")
	name := i.inputName(a[0].(string))
	i.ps.inputs = append(i.ps.inputs, InputDecl{Name: name, Kind: "uint64", Var: name})
	return sym{i.st.Var(name, SBV(64)), types.Uint64}
}

func vfUint32(fr *frame, a []value) value {
	i := fr.i
	i.needPath("vfUint32")
	name := i.inputName(a[0].(string))
	i.ps.inputs = append(i.ps.inputs, InputDecl{Name: name, Kind: "uint32", Var: name})
	return sym{i.st.Var(name, SBV(32)), types.Uint32}
}

func vfByte(fr *frame, a []value) value {
	i := fr.i
	i.needPath("vfByte")
	name := i.inputName(a[0].(string))
	i.ps.inputs = append(i.ps.inputs, InputDecl{Name: name, Kind: "byte", Var: name})
	return sym{i.st.Var(name, SBV(8)), types.Uint8}
}

func vfBool(fr *frame, a []value) value {
	i := fr.i
	i.needPath("vfBool")
	name := i.inputName(a[0].(string))
	i.ps.inputs = append(i.ps.inputs, InputDecl{Name: name, Kind: "bool", Var: name})
	return sym{i.st.Var(name, SBool), types.Bool}
}

func vfBytes(fr *frame, a []value) value {
	i := fr.i
	i.needPath("vfBytes")
	base := i.inputName(a[0].(string))
	n := int(i.concretize(a[1], "vfBytes length"))
	out := make([]value, n)
	for k := 0; k < n; k++ {
		name := fmt.Sprintf("%s[%d]", base, k)
		i.ps.inputs = append(i.ps.inputs, InputDecl{Name: name, Kind: "byte", Var: name})
		out[k] = sym{i.st.Var(name, SBV(8)), types.Uint8}
	}
	return out
}

func vfFloat64(fr *frame, a []value) value {
	i := fr.i
	i.needPath("vfFloat64")
	name := i.inputName(a[0].(string))
	i.ps.inputs = append(i.ps.inputs, InputDecl{Name: name, Kind: "float64bits", Var: name})
	return sym{i.st.FPOfBV(i.st.Var(name, SBV(64))), types.Float64}
}

func vfLattice(fr *frame, a []value) value {
	i := fr.i
	i.needPath("vfLattice")
	name := i.inputName(a[0].(string))
	k := int(asInt64(a[1]))
	i.ps.inputs = append(i.ps.inputs, InputDecl{Name: name, Kind: "lattice", Var: name, Lo: -(1 << uint(k)), Hi: 1 << uint(k)})
	return sym{i.st.LatticeVar(name, k), types.Float64}
}

func vfAssume(fr *frame, a []value) value {
	i := fr.i
	i.needPath("vfAssume")
	switch c := a[0].(type) {
	case bool:
		if !c {
			i.abort("assume", "assumption false")
		}
	case sym:
		i.assume(c.t)
	}
	return nil
}

// assume conjoins c; the path dies if that makes it infeasible.
func (i *interpreter) assume(c *Term) {
	ps := i.ps
	st := i.st
	if c == st.True || ps.pcSet[c] {
		return
	}
	if c == st.False || ps.pcSet[st.Not(c)] {
		i.abort("assume", "assumption false")
	}
	if ps.pos < len(ps.prefix) {
		i.pushPC(c)
		return
	}
	if ps.model != nil {
		if v, ok := Eval(c, ps.model, ps.evalCache); ok && v.B {
			i.pushPC(c)
			return
		}
	}
	r, m := i.checkSat(c)
	if r == Unsat {
		i.abort("assume", "assumption infeasible")
	}
	i.pushPC(c)
	if m != nil {
		i.setModel(m)
	}
}

func vfAssert(fr *frame, a []value) value {
	i := fr.i
	i.needPath("vfAssert")
	label := a[1].(string)
	ps := i.ps
	ps.asserts++
	switch c := a[0].(type) {
	case bool:
		if !c {
			if ps.pos >= len(ps.prefix) {
				i.recordViolation("assert", label, nil)
			}
			i.abort("assert-stop", label)
		}
	case sym:
		st := i.st
		if ps.pos < len(ps.prefix) {
			// already checked by the path this prefix was forked from
			i.pushPC(c.t)
			return nil
		}
		nc := st.Not(c.t)
		if ps.pcSet[c.t] {
			return nil
		}
		if ps.model != nil {
			if v, ok := Eval(nc, ps.model, ps.evalCache); ok && v.B {
				i.recordViolation("assert", label, ps.model, nc)
				i.assume(c.t)
				return nil
			}
		}
		r, m := i.checkSat(nc)
		switch r {
		case Sat:
			i.recordViolation("assert", label, m, nc)
		case Unknown:
			ps.inconclusive = append(ps.inconclusive, "assert "+label+": solver returned unknown")
		default:
			ps.discharged++
		}
		i.assume(c.t)
	}
	return nil
}

func (i *interpreter) recordViolation(kind, label string, m Model, extra ...*Term) {
	ps := i.ps
	v := Violation{Kind: kind, Label: label, Trace: append([]Decision{}, ps.trace...), Model: m,
		Inputs: append([]InputDecl{}, ps.inputs...), NeedsModel: m == nil}
	v.PC = append(v.PC, ps.pc...)
	v.PC = append(v.PC, extra...) // the negated assertion
	v.UsedUF = len(ps.ufUsed) > 0 || len(ps.inexact) > 0
	ps.violations = append(ps.violations, v)
}

func vfReach(fr *frame, a []value) value {
	i := fr.i
	i.needPath("vfReach")
	i.ps.reached[a[0].(string)] = true
	return nil
}

func vfObserveInt(fr *frame, a []value) value {
	i := fr.i
	i.needPath("vfObserveInt")
	o := Observation{Label: a[0].(string), Kind: types.Int64}
	if s, ok := a[1].(sym); ok {
		o.Term = s.t
	} else {
		o.Conc = asInt64(a[1])
	}
	i.ps.observed = append(i.ps.observed, o)
	return nil
}

func vfObserveBool(fr *frame, a []value) value {
	i := fr.i
	i.needPath("vfObserveBool")
	o := Observation{Label: a[0].(string), Kind: types.Bool}
	if s, ok := a[1].(sym); ok {
		o.Term = s.t
	} else {
		o.Conc = a[1].(bool)
	}
	i.ps.observed = append(i.ps.observed, o)
	return nil
}

func vfObserveF64(fr *frame, a []value) value {
	i := fr.i
	i.needPath("vfObserveF64")
	o := Observation{Label: a[0].(string), Kind: types.Float64}
	if s, ok := a[1].(sym); ok {
		o.Term = s.t
	} else {
		o.Conc = a[1].(float64)
	}
	i.ps.observed = append(i.ps.observed, o)
	return nil
}

// ---------------------------------------------------------------- freeze

func vfFreeze(fr *frame, a []value) value {
	i := fr.i
	i.needPath("vfFreeze")
	if i.frozen == nil {
		i.frozen = &frozenSet{}
	}
	seen := map[uintptr]bool{}
	i.freezeWalk(a[0], i.frozen, seen)
	return nil
}

func (i *interpreter) freezeCells(cells []value, f *frozenSet, seen map[uintptr]bool) {
	if cap(cells) == 0 {
		return
	}
	full := cells[:cap(cells)]
	base := uintptr(unsafe.Pointer(&full[0]))
	if seen[base] {
		return
	}
	seen[base] = true
	f.add(base, base+uintptr(len(full))*unsafe.Sizeof(full[0]), full)
	for k := range full {
		i.freezeWalk(full[k], f, seen)
	}
}

func (i *interpreter) freezeWalk(v value, f *frozenSet, seen map[uintptr]bool) {
	switch v := v.(type) {
	case []value:
		i.freezeCells(v, f, seen)
	case structure:
		i.freezeCells([]value(v), f, seen)
	case array:
		i.freezeCells([]value(v), f, seen)
	case *value:
		if v == nil {
			return
		}
		base := uintptr(unsafe.Pointer(v))
		if seen[base] {
			return
		}
		seen[base] = true
		f.add(base, base+unsafe.Sizeof(*v), v)
		i.freezeWalk(*v, f, seen)
	case uptr:
		if v.p != nil {
			i.freezeWalk(v.p, f, seen)
		}
	case iface:
		i.freezeWalk(v.v, f, seen)
	case *smap:
		if v == nil || v.frozen {
			return
		}
		v.frozen = true
		f.maps = append(f.maps, v)
		for _, e := range v.ents {
			i.freezeWalk(e.k, f, seen)
			i.freezeWalk(e.v, f, seen)
		}
	case *closure:
		if v != nil {
			for _, e := range v.Env {
				i.freezeWalk(e, f, seen)
			}
		}
	case tuple:
		for _, e := range v {
			i.freezeWalk(e, f, seen)
		}
	}
}

func (i *interpreter) checkWrite(addr *value) {
	p := uintptr(unsafe.Pointer(addr))
	if i.frozen != nil && i.frozen.contains(p) {
		i.frozenWrite("store")
	}
	if i.ps != nil && i.globalFrozen != nil && i.globalFrozen.contains(p) {
		i.frozenWrite("store to package-level state")
	}
}

func (i *interpreter) frozenWrite(what string) {
	if i.ps == nil {
		return
	}
	// report with the innermost target function
	i.abort("frozen-write", what+" into frozen (caller-owned or package-level) memory")
}

// vfSpecSub / vfSpecMul: specification-level (mathematical, unrounded) real
// arithmetic for harness oracles. Operands are exact-domain values or concrete
// finite floats (taken as the rationals they are); the result is the exact real
// difference / product, whatever its size - unlike the float64 operators of the
// code under test, which leave the exact domain when a result may round.
func vfSpecArith(fr *frame, op string, a []value) value {
	i := fr.i
	i.needPath("vfSpec" + op)
	st := i.st
	toReal := func(v value) *Term {
		switch v := v.(type) {
		case float64:
			if math.IsInf(v, 0) || math.IsNaN(v) {
				panic(unsupported{"vfSpec arithmetic on a non-finite value"})
			}
			return st.RealOfFloat(v)
		case sym:
			if v.t.S.K == KReal {
				return v.t
			}
		}
		panic(unsupported{"vfSpec arithmetic on a value outside the exact domain"})
	}
	x, y := toReal(a[0]), toReal(a[1])
	t := st.app(op, SReal, x, y)
	if t.ri == nil {
		ri := &realInfo{exact: true}
		if t.Op == "realconst" {
			ri.lo, ri.hi = t.R, t.R
		} else if x.ri != nil && y.ri != nil && x.ri.lo != nil && y.ri.lo != nil && x.ri.hi != nil && y.ri.hi != nil {
			if op == "-" {
				ri.lo = new(big.Rat).Sub(x.ri.lo, y.ri.hi)
				ri.hi = new(big.Rat).Sub(x.ri.hi, y.ri.lo)
			} else {
				c := []*big.Rat{new(big.Rat).Mul(x.ri.lo, y.ri.lo), new(big.Rat).Mul(x.ri.lo, y.ri.hi),
					new(big.Rat).Mul(x.ri.hi, y.ri.lo), new(big.Rat).Mul(x.ri.hi, y.ri.hi)}
				ri.lo, ri.hi = c[0], c[0]
				for _, v := range c[1:] {
					if v.Cmp(ri.lo) < 0 {
						ri.lo = v
					}
					if v.Cmp(ri.hi) > 0 {
						ri.hi = v
					}
				}
			}
		}
		ri.s = maxScale // not meant to flow back into float64 arithmetic
		t.ri = ri
	}
	return sym{t, types.Float64}
}

// vfOpaque(tag, a..f): an uninterpreted real-valued function of six exact-domain
// arguments (Ackermannised: equal arguments give equal results). Used by
// harness-level stubs that abstract a numeric kernel so that the logic around it
// can be decided for every kernel.
func vfOpaque(fr *frame, a []value) value {
	i := fr.i
	i.needPath("vfOpaque")
	st := i.st
	var args []*Term
	for _, v := range a[1:] {
		switch v := v.(type) {
		case float64:
			args = append(args, st.RealOfFloat(v))
		case sym:
			if v.t.S.K != KReal {
				panic(unsupported{"vfOpaque on a value outside the exact domain"})
			}
			args = append(args, v.t)
		default:
			panic(unsupported{fmt.Sprintf("vfOpaque argument %T", v)})
		}
	}
	i.noteInexact("opaque:" + a[0].(string))
	return sym{st.InexactVar("op_"+a[0].(string), args...), types.Float64}
}

// vfExistsXY(label, k, pred): an existential obligation - some real location in
// [-2^k,2^k]^2 satisfies pred (a harness closure over XY that does not branch on
// its argument). Decided by one satisfiability query with a fresh symbolic
// point; unsat is reported as a violation of label. The native runtime searches
// a quarter-integer grid instead.
func vfExistsXY(fr *frame, a []value) value {
	i := fr.i
	i.needPath("vfExistsXY")
	label := a[0].(string)
	k := int(asInt64(a[1]))
	ps := i.ps
	ps.asserts++
	n := ps.inputSeq["\x00exists"]
	ps.inputSeq["\x00exists"] = n + 1
	st := i.st
	pt := structure{
		sym{st.LatticeRealVar(fmt.Sprintf("ex%d.x", n), k), types.Float64},
		sym{st.LatticeRealVar(fmt.Sprintf("ex%d.y", n), k), types.Float64},
	}
	res := call(i, fr, 0, a[2], []value{pt})
	switch c := res.(type) {
	case bool:
		if !c && ps.pos >= len(ps.prefix) {
			i.recordViolation("assert", label, ps.model)
		}
	case sym:
		if ps.pos < len(ps.prefix) {
			return nil
		}
		r, _ := i.checkSat(c.t)
		switch r {
		case Sat:
			ps.discharged++
		case Unsat:
			i.recordViolation("assert", label, ps.model)
		default:
			ps.inconclusive = append(ps.inconclusive, "exists "+label+": solver returned unknown")
		}
	}
	return nil
}
