package sym

// Engine: loads the real packages (with harness overlay), builds SSA, and
// explores a harness function symbolically with a pool of workers.

import (
	"fmt"
	"go/token"
	"go/types"
	"math"
	"os"
	"runtime"
	"sort"
	"strings"
	"sync"
	"time"

	"golang.org/x/tools/go/packages"
	"golang.org/x/tools/go/ssa"
	"golang.org/x/tools/go/ssa/ssautil"
)

type Engine struct {
	Prog  *ssa.Program
	Pkgs  []*ssa.Package
	Sizes types.Sizes
	Fset  *token.FileSet
	// InitPkgs: package paths whose init is run (concretely) per worker.
	InitPkgs map[string]bool
	LoadTime time.Duration
}

var defaultInit = []string{
	"errors", "math", "math/bits", "sort", "strings", "bytes", "unicode", "unicode/utf8",
	"io", "encoding/binary", "container/heap", "text/scanner", "strconv", "slices", "cmp",
	"internal/bytealg", "internal/stringslite", "internal/itoa", "iter", "unicode/utf16",
	"math/rand",
}

// Load loads patterns under dir with the given overlay (path -> contents) and
// build tags, and builds SSA for the whole program.
func Load(dir string, overlay map[string][]byte, tags string, patterns ...string) (*Engine, error) {
	t0 := time.Now()
	cfg := &packages.Config{
		Mode:       packages.LoadAllSyntax,
		Dir:        dir,
		Overlay:    overlay,
		BuildFlags: []string{"-tags=" + tags},
		Env:        append(os.Environ(), "GOFLAGS=-mod=mod", "GOPROXY=off", "GOSUMDB=off", "GOTOOLCHAIN=local"),
	}
	pkgs, err := packages.Load(cfg, patterns...)
	if err != nil {
		return nil, err
	}
	var errs []string
	packages.Visit(pkgs, nil, func(p *packages.Package) {
		for _, e := range p.Errors {
			errs = append(errs, e.Error())
		}
	})
	if len(errs) > 0 {
		if len(errs) > 20 {
			errs = errs[:20]
		}
		return nil, fmt.Errorf("package load errors:\n%s", strings.Join(errs, "\n"))
	}
	prog, spkgs := ssautil.AllPackages(pkgs, ssa.InstantiateGenerics)
	prog.Build()
	e := &Engine{Prog: prog, Fset: prog.Fset, InitPkgs: map[string]bool{}}
	for _, p := range spkgs {
		if p != nil {
			e.Pkgs = append(e.Pkgs, p)
			e.InitPkgs[p.Pkg.Path()] = true
		}
	}
	for _, p := range defaultInit {
		e.InitPkgs[p] = true
	}
	e.Sizes = types.SizesFor("gc", "amd64")
	e.LoadTime = time.Since(t0)
	return e, nil
}

func (e *Engine) Package(path string) *ssa.Package {
	for _, p := range e.Prog.AllPackages() {
		if p.Pkg.Path() == path {
			return p
		}
	}
	return nil
}

// ---------------------------------------------------------------- results

type Violation struct {
	Kind       string // assert, panic, alloc, frozen-write
	Label      string
	Site       string
	Trace      []Decision
	Model      Model
	PC         []*Term
	Inputs     []InputDecl
	NeedsModel bool
	UsedUF     bool
	Harness    string
}

type PathResult struct {
	Trace        []Decision
	Outcome      string // ok, panic, assume, unsupported, unwind, alloc, frozen-write, infeasible, engine, assert-stop
	Msg          string
	Violations   []Violation
	Model        Model
	Inputs       []InputDecl
	Reached      []string
	Observed     []ObservedVal
	Asserts      int
	Discharged   int
	Inconclusive []string
	UFUsed       map[string]int
	Inexact      map[string]int
	Stubs        map[string]int
	Steps        int64
	Allocated    int64
	PCSize       int
}

type ObservedVal struct {
	Label string
	Kind  string
	Val   string // rendered concrete value under the path's model ("" if unknown)
}

type HarnessSpec struct {
	Name     string
	Pkg      string
	Func     string
	Cfg      Config
	Workers  int
	MaxPaths int
	Deadline time.Duration
	HuntMode bool
	MapOrder string // "", or "rotate:<k>:<r>" (k-th range statement rotated by r)
	// Stubs: callee (full name) -> harness function in the same package that
	// replaces it (same signature); every use is listed in evidence.
	Stubs map[string]string
	// MaxViolations stops the exploration once that many violations were
	// found (the run is then not exhaustive). 0 = 40.
	MaxViolations int
	LogSMT        string
}

type HarnessResult struct {
	Spec        HarnessSpec
	Paths       []*PathResult
	Violations  []Violation
	Counts      map[string]int
	Funcs       map[string]int
	Stats       SolverStats
	Wall        time.Duration
	Exhaustive  bool
	WorkLeft    int
	InitTime    time.Duration
	TermsMax    int
	EngineError string
}

// ---------------------------------------------------------------- workers

func (e *Engine) newInterp(stats *SolverStats, spec *HarnessSpec) *interpreter {
	i := &interpreter{
		prog:         e.Prog,
		globals:      map[*ssa.Global]*value{},
		sizes:        e.Sizes,
		st:           NewStore(),
		solver:       NewSolver(stats),
		cfg:          spec.Cfg,
		elemOrigin:   map[*value]*origin{},
		wantOrigin:   map[*ssa.IndexAddr]bool{},
		funcsEntered: map[*ssa.Function]int{},
	}
	i.st.HuntMode = spec.HuntMode
	i.solver.IntLattice = spec.Cfg.IntLattice
	if i.cfg.MaxPicks == 0 {
		i.cfg.MaxPicks = 64
	}
	if i.cfg.Unwind == 0 {
		i.cfg.Unwind = 10000
	}
	if i.cfg.MaxSteps == 0 {
		i.cfg.MaxSteps = 20_000_000
	}
	rt := e.Prog.ImportedPackage("runtime")
	if rt == nil {
		panic("ssa.Program doesn't include runtime package")
	}
	i.runtimeErrorString = rt.Type("errorString").Object().Type()
	for _, pkg := range e.Prog.AllPackages() {
		// globals of packages whose init is not run keep their zero value
		for _, m := range pkg.Members {
			if g, ok := m.(*ssa.Global); ok {
				cell := zero(mustDeref(g.Type()))
				i.globals[g] = &cell
			}
		}
	}
	i.initFilter = func(p *ssa.Package) bool { return e.InitPkgs[p.Pkg.Path()] }
	if len(spec.Stubs) > 0 {
		i.stubs = map[string]value{}
		pkg := e.Package(spec.Pkg)
		for callee, repl := range spec.Stubs {
			if f := pkg.Func(repl); f != nil {
				i.stubs[callee] = f
			}
		}
	}
	return i
}

// runInit runs the package initialisers (concretely) and freezes the
// package-level state.
func (i *interpreter) runInit(pkgs []*ssa.Package) (err error) {
	defer func() {
		if r := recover(); r != nil {
			err = fmt.Errorf("package init failed: %v", r)
		}
	}()
	for _, p := range pkgs {
		if init := p.Func("init"); init != nil {
			call(i, nil, token.NoPos, init, nil)
		}
	}
	i.initDone = true
	// freeze package-level state of the packages under test
	i.globalFrozen = &frozenSet{}
	seen := map[uintptr]bool{}
	for g, cell := range i.globals {
		if g.Pkg == nil {
			continue
		}
		path := g.Pkg.Pkg.Path()
		if !strings.Contains(path, "simplefeatures") {
			continue
		}
		if strings.HasPrefix(g.Name(), "init$") {
			continue
		}
		i.freezeWalk(cell, i.globalFrozen, seen)
	}
	return nil
}

func (i *interpreter) newPath(w WorkItem) {
	i.ps = &pathState{
		prefix:    w.Prefix,
		model:     w.Model,
		pcSet:     map[*Term]bool{},
		evalCache: map[*Term]Val{},
		inputSeq:  map[string]int{},
		reached:   map[string]bool{},
		ufUsed:    map[string]int{},
		inexact:   map[string]int{},
		stubsHit:  map[string]int{},
	}
	i.frozen = nil
	i.depth = 0
	if len(i.elemOrigin) > 0 {
		i.elemOrigin = map[*value]*origin{}
	}
}

// runPath executes the harness once under the given decision prefix.
func (i *interpreter) runPath(fn *ssa.Function, w WorkItem) (res *PathResult, work []WorkItem) {
	i.newPath(w)
	ps := i.ps
	res = &PathResult{}
	func() {
		defer func() {
			r := recover()
			if r == nil {
				return
			}
			switch r := r.(type) {
			case engineAbort:
				res.Outcome, res.Msg = r.kind, r.msg
			case unsupported:
				res.Outcome, res.Msg = "unsupported", r.msg
			case targetPanic:
				res.Outcome, res.Msg = "panic", panicString(r)
			case runtime.Error:
				buf := make([]byte, 2048)
				buf = buf[:runtime.Stack(buf, false)]
				res.Outcome, res.Msg = "engine", fmt.Sprintf("%v\n%s", r, buf)
			default:
				res.Outcome, res.Msg = "engine", fmt.Sprint(r)
			}
		}()
		call(i, nil, token.NoPos, fn, nil)
		res.Outcome = "ok"
	}()
	if ps.pos < len(ps.prefix) && (res.Outcome == "ok" || res.Outcome == "panic") {
		res.Msg = fmt.Sprintf("decision prefix not consumed (%d of %d): %s", ps.pos, len(ps.prefix), res.Msg)
		res.Outcome = "engine"
	}
	switch res.Outcome {
	case "panic", "alloc", "frozen-write":
		// an obligation violated on this path (the path condition is feasible)
		if ps.pos >= len(ps.prefix) {
			v := Violation{Kind: res.Outcome, Label: res.Msg, Trace: append([]Decision{}, ps.trace...),
				Inputs: append([]InputDecl{}, ps.inputs...), Model: ps.model, NeedsModel: ps.model == nil}
			v.PC = append(v.PC, ps.pc...)
			v.UsedUF = len(ps.ufUsed) > 0 || len(ps.inexact) > 0
			ps.violations = append(ps.violations, v)
		}
	}
	// models for violations and for the path itself
	for k := range ps.violations {
		v := &ps.violations[k]
		if v.Model == nil {
			r, m := i.solver.Check(v.PC, true, false)
			if r == Sat && m != nil {
				v.Model = m
			} else if r == Unsat {
				v.Kind = "spurious-" + v.Kind
			}
		}
		if v.Model != nil && !integralModel(v.Inputs, v.Model) {
			// the real relaxation is satisfiable: look for a lattice witness
			r, m := i.solver.Check(v.PC, true, true)
			if r == Sat && m != nil {
				v.Model = m
			} else if r == Unsat {
				v.Kind = "spurious-" + v.Kind
			}
		}
	}
	if ps.model != nil && res.Outcome == "ok" && !integralModel(ps.inputs, ps.model) {
		if r, m := i.solver.Check(ps.pc, true, true); r == Sat && m != nil {
			ps.model = m
		}
	}
	if ps.model == nil && (res.Outcome == "ok" || res.Outcome == "panic") && len(ps.pc) > 0 {
		if r, m := i.solver.Check(ps.pc, true, false); r == Sat {
			ps.model = m
		} else if r == Unsat {
			res.Outcome, res.Msg = "infeasible", "final path condition unsat"
		}
	}
	res.Trace = ps.trace
	res.Violations = ps.violations
	res.Model = ps.model
	res.Inputs = ps.inputs
	for l := range ps.reached {
		res.Reached = append(res.Reached, l)
	}
	sort.Strings(res.Reached)
	cache := map[*Term]Val{}
	for _, o := range ps.observed {
		ov := ObservedVal{Label: o.Label}
		switch o.Kind {
		case types.Int64:
			ov.Kind = "int"
		case types.Bool:
			ov.Kind = "bool"
		case types.Float64:
			ov.Kind = "f64"
		}
		if o.Term == nil {
			ov.Val = renderObserved(o.Kind, o.Conc, Val{}, false)
		} else if ps.model != nil {
			if v, ok := Eval(o.Term, ps.model, cache); ok {
				ov.Val = renderObserved(o.Kind, nil, v, o.Term.S.K == KReal)
			}
		}
		res.Observed = append(res.Observed, ov)
	}
	res.Asserts, res.Discharged, res.Inconclusive = ps.asserts, ps.discharged, ps.inconclusive
	res.UFUsed, res.Inexact, res.Stubs = ps.ufUsed, ps.inexact, ps.stubsHit
	res.Steps, res.Allocated, res.PCSize = ps.steps, ps.allocated, len(ps.pc)
	work = ps.newWork
	i.ps = nil
	return res, work
}

// integralModel: every lattice input has an integer value in m.
func integralModel(inputs []InputDecl, m Model) bool {
	for _, in := range inputs {
		if in.Kind != "lattice" {
			continue
		}
		v, ok := m[in.Var]
		if ok && v.R != nil && !v.R.IsInt() {
			return false
		}
	}
	return true
}

func renderObserved(k types.BasicKind, conc value, v Val, real bool) string {
	switch k {
	case types.Int64:
		if conc != nil {
			return fmt.Sprint(conc.(int64))
		}
		return fmt.Sprint(int64(v.U))
	case types.Bool:
		if conc != nil {
			return fmt.Sprint(conc.(bool))
		}
		return fmt.Sprint(v.B)
	case types.Float64:
		if conc != nil {
			return fmt.Sprintf("%016x", f64bits(conc.(float64)))
		}
		if real {
			f, exact := v.R.Float64()
			if !exact {
				return ""
			}
			return fmt.Sprintf("%016x", f64bits(f))
		}
		return fmt.Sprintf("%016x", f64bits(v.F))
	}
	return ""
}

func f64bits(f float64) uint64 { return math.Float64bits(f) }

func panicString(p targetPanic) string {
	if ifc, ok := p.v.(iface); ok {
		if s, ok := ifc.v.(string); ok {
			return s
		}
		if pv, ok := ifc.v.(*value); ok && pv != nil {
			if st, ok := (*pv).(structure); ok && len(st) > 0 {
				if s, ok := st[0].(string); ok {
					return s
				}
			}
		}
		return fmt.Sprintf("%s: %s", ifc.t, toString(ifc.v))
	}
	return toString(p.v)
}

// Run explores the harness.
func (e *Engine) Run(spec HarnessSpec) *HarnessResult {
	t0 := time.Now()
	hr := &HarnessResult{Spec: spec, Counts: map[string]int{}, Funcs: map[string]int{}}
	pkg := e.Package(spec.Pkg)
	if pkg == nil {
		hr.EngineError = "package not loaded: " + spec.Pkg
		return hr
	}
	fn := pkg.Func(spec.Func)
	if fn == nil {
		hr.EngineError = "harness function not found: " + spec.Pkg + "." + spec.Func
		return hr
	}
	if spec.Workers <= 0 {
		spec.Workers = runtime.NumCPU()
	}
	if spec.MaxPaths <= 0 {
		spec.MaxPaths = 200000
	}
	if spec.Deadline <= 0 {
		spec.Deadline = 30 * time.Minute
	}
	deadline := t0.Add(spec.Deadline)
	if spec.MaxViolations <= 0 {
		spec.MaxViolations = 40
	}

	var mu sync.Mutex
	cond := sync.NewCond(&mu)
	queue := []WorkItem{{}}
	active := 0
	started := 0
	stop := false
	var logMu sync.Mutex
	var logF *os.File
	if spec.LogSMT != "" {
		logF, _ = os.Create(spec.LogSMT)
		defer logF.Close()
	}

	doneCh := make(chan bool)
	if os.Getenv("VERIF_PROGRESS") != "" {
		go func() {
			tk := time.NewTicker(10 * time.Second)
			defer tk.Stop()
			for {
				select {
				case <-doneCh:
					return
				case <-tk.C:
					mu.Lock()
					fmt.Fprintf(os.Stderr, "[%s %.0fs] paths=%d queue=%d active=%d outcomes=%v queries=%d viol=%d\n", spec.Name, time.Since(t0).Seconds(), len(hr.Paths), len(queue), active, hr.Counts, hr.Stats.Queries, len(hr.Violations))
					mu.Unlock()
				}
			}
		}()
	}
	var wg sync.WaitGroup
	for w := 0; w < spec.Workers; w++ {
		wg.Add(1)
		go func(w int) {
			defer wg.Done()
			var in *interpreter
			defer func() {
				if in != nil {
					in.solver.Close()
					mu.Lock()
					for f, n := range in.enteredNames() {
						hr.Funcs[f] += n
					}
					mu.Unlock()
				}
			}()
			for {
				mu.Lock()
				for len(queue) == 0 && active > 0 && !stop {
					cond.Wait()
				}
				if stop || (len(queue) == 0 && active == 0) {
					mu.Unlock()
					cond.Broadcast()
					return
				}
				if started >= spec.MaxPaths || time.Now().After(deadline) || len(hr.Violations) >= spec.MaxViolations {
					stop = true
					mu.Unlock()
					cond.Broadcast()
					return
				}
				// depth-first: take the most recent item
				item := queue[len(queue)-1]
				queue = queue[:len(queue)-1]
				active++
				started++
				mu.Unlock()

				if in == nil {
					ti := time.Now()
					in = e.newInterp(&hr.Stats, &spec)
					if logF != nil {
						in.solver.LogFile = lockedWriter{&logMu, logF}
					}
					if err := in.runInit(e.Pkgs); err != nil {
						mu.Lock()
						hr.EngineError = err.Error()
						stop = true
						active--
						mu.Unlock()
						cond.Broadcast()
						return
					}
					in.setMapOrder(spec.MapOrder)
					if w == 0 {
						hr.InitTime = time.Since(ti)
					}
				}
				res, work := in.runPath(fn, item)

				mu.Lock()
				active--
				hr.Paths = append(hr.Paths, res)
				hr.Counts[res.Outcome]++
				for _, v := range res.Violations {
					v.Harness = spec.Name
					hr.Violations = append(hr.Violations, v)
				}
				queue = append(queue, work...)
				if in.st.Size() > hr.TermsMax {
					hr.TermsMax = in.st.Size()
				}
				mu.Unlock()
				cond.Broadcast()
				// keep the term store from growing without bound
				if in.st.Size() > 2_000_000 {
					in.st = NewStore()
					in.st.HuntMode = spec.HuntMode
				}
			}
		}(w)
	}
	wg.Wait()
	close(doneCh)
	hr.WorkLeft = len(queue)
	hr.Exhaustive = len(queue) == 0 && !stop
	hr.Wall = time.Since(t0)
	return hr
}

type lockedWriter struct {
	mu *sync.Mutex
	f  *os.File
}

func (l lockedWriter) Write(p []byte) (int, error) {
	l.mu.Lock()
	defer l.mu.Unlock()
	return l.f.Write(p)
}

// FuncsEntered is filled by RunOne-style callers; Run aggregates lazily.
func (i *interpreter) enteredNames() map[string]int {
	out := map[string]int{}
	for f, n := range i.funcsEntered {
		out[f.String()] = n
	}
	return out
}

func (i *interpreter) setMapOrder(spec string) {
	i.mapOrder = nil
	if spec == "" {
		return
	}
	var k, r int
	if _, err := fmt.Sscanf(spec, "after-mark:%d", &r); err == nil {
		// every range over a map executed after the harness called
		// vfMapOrderMark() is rotated by r (r < 0: reversed)
		i.mapOrder = func(ents []mapEntry) []mapEntry {
			if !i.ps.mapMark || len(ents) < 2 {
				return ents
			}
			out := append([]mapEntry{}, ents...)
			if r < 0 {
				for a, b := 0, len(out)-1; a < b; a, b = a+1, b-1 {
					out[a], out[b] = out[b], out[a]
				}
				return out
			}
			rr := r % len(ents)
			return append(out[rr:], out[:rr]...)
		}
		return
	}
	if _, err := fmt.Sscanf(spec, "rotate:%d:%d", &k, &r); err == nil {
		i.mapOrder = func(ents []mapEntry) []mapEntry {
			n := i.ps.rangeCount
			i.ps.rangeCount++
			if n != k || len(ents) < 2 {
				return ents
			}
			rr := r % len(ents)
			return append(append([]mapEntry{}, ents[rr:]...), ents[:rr]...)
		}
	}
}
