// Copyright 2013 The Go Authors. All rights reserved.
// Use of this source code is governed by a BSD-style
// license that can be found in the LICENSE file (LICENSE.xtools).
//
// Derived from golang.org/x/tools v0.29.0 go/ssa/interp; extended with
// symbolic scalars for the gosym engine.

package sym

// Values
//
// All interpreter values are "boxed" in the empty interface, value.
// The range of possible dynamic types within value are:
//
// - bool
// - numbers (all built-in int/float/complex types are distinguished)
// - sym --- a symbolic scalar (bool, integer of any kind, float64): an SMT term
// - string
// - *smap --- maps (insertion ordered association lists)
// - chan value
// - []value --- slices
// - iface --- interfaces.
// - structure --- structs.  Fields are ordered and accessed by numeric indices.
// - array --- arrays.
// - *value --- pointers.  Careful: *value is a distinct type from *array etc.
// - uptr --- unsafe.Pointer (keeps the pointer it was made from)
// - viewptr --- a pointer that reinterprets the elements of a backing array
// - *ssa.Function \
//   *ssa.Builtin   } --- functions.  A nil 'func' is always of type *ssa.Function.
//   *closure      /
//   *nativeFunc  /
// - tuple --- as returned by Return, Next, "value,ok" modes, etc.
// - iter --- iterators from 'range' over map or string.
// - bad --- a poison pill for locals that have gone out of scope.
// - **deferred -- the address of a frame's defer stack for a Defer._Stack.

import (
	"bytes"
	"fmt"
	"go/types"
	"io"
	"strings"

	"golang.org/x/tools/go/ssa"
)

type value interface{}

type tuple []value

type array []value

type iface struct {
	t types.Type // never an "untyped" type
	v value
}

type structure []value

// sym is a symbolic scalar of Go basic kind k.
type sym struct {
	t *Term
	k types.BasicKind
}

// uptr models unsafe.Pointer.
type uptr struct {
	p   *value
	t   types.Type // the pointer type it was converted from
	org *origin
}

// origin describes the backing array an element pointer points into.
type origin struct {
	backing []value // backing[0] is the pointed-to element
	elem    types.Type
}

// viewptr is (*To)(unsafe.Pointer(&backing[0])) with To != elem type.
type viewptr struct {
	org *origin
	to  types.Type
}

// For map, array, *array, slice, string or channel.
type iter interface {
	// next returns a Tuple (key, value, ok).
	// key and value are unaliased, e.g. copies of the sequence element.
	next() tuple
}

type closure struct {
	Fn  *ssa.Function
	Env []value
}

// symstr is a string some of whose bytes are symbolic (length concrete).
type symstr []value

func (s symstr) hasSym() bool {
	for _, b := range s {
		if isSym(b) {
			return true
		}
	}
	return false
}

// strBytes returns the bytes of a string or symstr.
func strBytes(v value) ([]value, bool) {
	switch v := v.(type) {
	case string:
		out := make([]value, len(v))
		for k := 0; k < len(v); k++ {
			out[k] = v[k]
		}
		return out, true
	case symstr:
		return []value(v), true
	}
	return nil, false
}

// mkStr builds a string value from bytes (a plain string when all concrete).
func mkStr(bs []value) value {
	for _, b := range bs {
		if isSym(b) {
			return symstr(append([]value(nil), bs...))
		}
	}
	out := make([]byte, len(bs))
	for k, b := range bs {
		out[k] = b.(byte)
	}
	return string(out)
}

// nativeFunc is a callable implemented by the engine.
type nativeFunc struct {
	name string
	fn   func(fr *frame, args []value) value
}

type bad struct{}

// nil-tolerant variant of types.Identical.
func sameType(x, y types.Type) bool {
	if x == nil {
		return y == nil
	}
	return y != nil && types.Identical(x, y)
}

func isSym(v value) bool { _, ok := v.(sym); return ok }

// equals returns x == y according to Go's equivalence relation for type t,
// as a bool or a symbolic bool.
func (i *interpreter) equals(t types.Type, x, y value) value {
	if _, ok := x.(symstr); ok {
		return i.strEq(x, y)
	}
	if _, ok := y.(symstr); ok {
		return i.strEq(x, y)
	}
	if sx, ok := x.(sym); ok {
		return i.symEq(sx.k, x, y)
	}
	if sy, ok := y.(sym); ok {
		return i.symEq(sy.k, x, y)
	}
	switch x := x.(type) {
	case bool:
		return x == y.(bool)
	case int:
		return x == y.(int)
	case int8:
		return x == y.(int8)
	case int16:
		return x == y.(int16)
	case int32:
		return x == y.(int32)
	case int64:
		return x == y.(int64)
	case uint:
		return x == y.(uint)
	case uint8:
		return x == y.(uint8)
	case uint16:
		return x == y.(uint16)
	case uint32:
		return x == y.(uint32)
	case uint64:
		return x == y.(uint64)
	case uintptr:
		return x == y.(uintptr)
	case float32:
		return x == y.(float32)
	case float64:
		return x == y.(float64)
	case complex64:
		return x == y.(complex64)
	case complex128:
		return x == y.(complex128)
	case string:
		return x == y.(string)
	case *value:
		return x == y.(*value)
	case uptr:
		return x.p == y.(uptr).p
	case chan value:
		return x == y.(chan value)
	case structure:
		y := y.(structure)
		tStruct := t.Underlying().(*types.Struct)
		var acc value = true
		for k, n := 0, tStruct.NumFields(); k < n; k++ {
			if f := tStruct.Field(k); f.Name() != "_" {
				acc = i.andv(acc, i.equals(f.Type(), x[k], y[k]))
				if acc == false {
					return false
				}
			}
		}
		return acc
	case array:
		y := y.(array)
		tElt := t.Underlying().(*types.Array).Elem()
		var acc value = true
		for k, xi := range x {
			acc = i.andv(acc, i.equals(tElt, xi, y[k]))
			if acc == false {
				return false
			}
		}
		return acc
	case iface:
		y := y.(iface)
		if !sameType(x.t, y.t) {
			return false
		}
		if x.t == nil {
			return true
		}
		return i.equals(x.t, x.v, y.v)
	case *smap:
		return x == y.(*smap)
	}

	// Since map, func and slice don't support comparison, this
	// case is only reachable if one of x or y is literally nil
	// (handled in eqnil) or via interface{} values.
	panic(targetPanic{iface{i.runtimeErrorString, fmt.Sprintf("runtime error: comparing uncomparable type %s", t)}})
}

func (i *interpreter) strEq(x, y value) value {
	a, ok1 := strBytes(x)
	b, ok2 := strBytes(y)
	if !ok1 || !ok2 {
		panic(fmt.Sprintf("strEq of %T, %T", x, y))
	}
	if len(a) != len(b) {
		return false
	}
	var acc value = true
	for k := range a {
		acc = i.andv(acc, i.equals(types.Typ[types.Uint8], a[k], b[k]))
		if acc == false {
			return false
		}
	}
	return acc
}

// andv is && over bool-or-symbolic-bool values.
func (i *interpreter) andv(a, b value) value {
	if ab, ok := a.(bool); ok {
		if !ab {
			return false
		}
		return b
	}
	if bb, ok := b.(bool); ok {
		if !bb {
			return false
		}
		return a
	}
	return sym{i.st.And(a.(sym).t, b.(sym).t), types.Bool}
}

func (i *interpreter) notv(a value) value {
	if ab, ok := a.(bool); ok {
		return !ab
	}
	return sym{i.st.Not(a.(sym).t), types.Bool}
}

// load returns the value of type T in *addr.
func load(T types.Type, addr *value) value {
	switch T := T.Underlying().(type) {
	case *types.Struct:
		v := (*addr).(structure)
		a := make(structure, len(v))
		for i := range a {
			a[i] = load(T.Field(i).Type(), &v[i])
		}
		return a
	case *types.Array:
		v := (*addr).(array)
		a := make(array, len(v))
		for i := range a {
			a[i] = load(T.Elem(), &v[i])
		}
		return a
	default:
		return *addr
	}
}

// store stores value v of type T into *addr.
func (i *interpreter) store(T types.Type, addr *value, v value) {
	if i.frozen != nil || (i.globalFrozen != nil && i.ps != nil) {
		i.checkWrite(addr)
	}
	rawStore(T, addr, v)
}

func rawStore(T types.Type, addr *value, v value) {
	switch T := T.Underlying().(type) {
	case *types.Struct:
		lhs := (*addr).(structure)
		rhs := v.(structure)
		for i := range lhs {
			rawStore(T.Field(i).Type(), &lhs[i], rhs[i])
		}
	case *types.Array:
		lhs := (*addr).(array)
		rhs := v.(array)
		for i := range lhs {
			rawStore(T.Elem(), &lhs[i], rhs[i])
		}
	default:
		*addr = v
	}
}

// copyVal returns a deep copy of the aggregate parts of v (structs and arrays
// are values in Go; the interpreter represents them by reference).
func copyVal(v value) value {
	switch v := v.(type) {
	case structure:
		a := make(structure, len(v))
		for i := range v {
			a[i] = copyVal(v[i])
		}
		return a
	case array:
		a := make(array, len(v))
		for i := range v {
			a[i] = copyVal(v[i])
		}
		return a
	}
	return v
}

// Prints in the style of built-in println.
func writeValue(buf *bytes.Buffer, v value) {
	switch v := v.(type) {
	case nil, bool, int, int8, int16, int32, int64, uint, uint8, uint16, uint32, uint64, uintptr, float32, float64, complex64, complex128, string:
		fmt.Fprintf(buf, "%v", v)

	case sym:
		fmt.Fprintf(buf, "<sym %s>", v.t.String())

	case symstr:
		fmt.Fprintf(buf, "<symstr len %d>", len(v))

	case *smap:
		buf.WriteString("map[")
		if v != nil {
			for k, e := range v.ents {
				if k > 0 {
					buf.WriteString(" ")
				}
				writeValue(buf, e.k)
				buf.WriteString(":")
				writeValue(buf, e.v)
			}
		}
		buf.WriteString("]")

	case chan value:
		fmt.Fprintf(buf, "%v", v) // (an address)

	case *value:
		if v == nil {
			buf.WriteString("<nil>")
		} else {
			fmt.Fprintf(buf, "%p", v)
		}

	case uptr:
		fmt.Fprintf(buf, "unsafe.Pointer(%p)", v.p)

	case iface:
		fmt.Fprintf(buf, "(%s, ", v.t)
		writeValue(buf, v.v)
		buf.WriteString(")")

	case structure:
		buf.WriteString("{")
		for i, e := range v {
			if i > 0 {
				buf.WriteString(" ")
			}
			writeValue(buf, e)
		}
		buf.WriteString("}")

	case array:
		buf.WriteString("[")
		for i, e := range v {
			if i > 0 {
				buf.WriteString(" ")
			}
			writeValue(buf, e)
		}
		buf.WriteString("]")

	case []value:
		buf.WriteString("[")
		for i, e := range v {
			if i > 0 {
				buf.WriteString(" ")
			}
			writeValue(buf, e)
		}
		buf.WriteString("]")

	case *ssa.Function, *ssa.Builtin, *closure, *nativeFunc:
		fmt.Fprintf(buf, "%p", v) // (an address)

	case tuple:
		// Unreachable in well-formed Go programs
		buf.WriteString("(")
		for i, e := range v {
			if i > 0 {
				buf.WriteString(", ")
			}
			writeValue(buf, e)
		}
		buf.WriteString(")")

	default:
		fmt.Fprintf(buf, "<%T>", v)
	}
}

// Implements printing of Go values in the style of built-in println.
func toString(v value) string {
	var b bytes.Buffer
	writeValue(&b, v)
	return b.String()
}

// ------------------------------------------------------------------------
// Iterators

type stringIter struct {
	*strings.Reader
	i int
}

func (it *stringIter) next() tuple {
	okv := make(tuple, 3)
	ch, n, err := it.ReadRune()
	ok := err != io.EOF
	okv[0] = ok
	if ok {
		okv[1] = it.i
		okv[2] = ch
	}
	it.i += n
	return okv
}

// ------------------------------------------------------------------------
// Maps: insertion-ordered association lists. Lookup with a symbolic key (or
// against symbolic keys) compares against the existing keys one by one and
// forks on each equality the solver cannot decide.

type mapEntry struct {
	k, v value
}

type smap struct {
	keyType types.Type
	ents    []mapEntry
	frozen  bool
}

func makeMap(kt types.Type) *smap {
	return &smap{keyType: kt}
}

func (m *smap) len() int {
	if m == nil {
		return 0
	}
	return len(m.ents)
}

func (i *interpreter) mapFind(m *smap, k value) int {
	if m == nil {
		return -1
	}
	for idx := range m.ents {
		if i.truth(i.equals(m.keyType, m.ents[idx].k, k)) {
			return idx
		}
	}
	return -1
}

func (i *interpreter) mapLookup(m *smap, k value) (value, bool) {
	idx := i.mapFind(m, k)
	if idx < 0 {
		return nil, false
	}
	return m.ents[idx].v, true
}

func (i *interpreter) mapInsert(m *smap, k, v value) {
	if m == nil {
		panic(targetPanic{iface{i.runtimeErrorString, "assignment to entry in nil map"}})
	}
	if m.frozen {
		i.frozenWrite("map update")
	}
	idx := i.mapFind(m, k)
	if idx >= 0 {
		m.ents[idx].v = v
		return
	}
	m.ents = append(m.ents, mapEntry{copyVal(k), v})
}

func (i *interpreter) mapDelete(m *smap, k value) {
	if m == nil {
		return
	}
	if m.frozen {
		i.frozenWrite("map delete")
	}
	idx := i.mapFind(m, k)
	if idx >= 0 {
		m.ents = append(m.ents[:idx:idx], m.ents[idx+1:]...)
	}
}

// symstrIter ranges over a string with symbolic bytes; non-ASCII bytes are
// outside the model (the path is abandoned as unsupported).
type symstrIter struct {
	i   *interpreter
	s   symstr
	pos int
}

func (it *symstrIter) next() tuple {
	if it.pos >= len(it.s) {
		return tuple{false, nil, nil}
	}
	b := it.s[it.pos]
	k := it.pos
	it.pos++
	if sb, ok := b.(sym); ok {
		st := it.i.st
		if it.i.decide(st.BVCmp("bvule", st.BVConst(0x80, 8), sb.t)) {
			it.i.abort("unsupported", "non-ASCII byte in a symbolic string")
		}
		return tuple{true, k, it.i.mkSym(st.ZExt(sb.t, 32), types.Int32)}
	}
	c := b.(byte)
	if c >= 0x80 {
		it.i.abort("unsupported", "non-ASCII byte in a symbolic string")
	}
	return tuple{true, k, int32(c)}
}

type smapIter struct {
	ents []mapEntry
	pos  int
}

func (it *smapIter) next() tuple {
	if it.pos >= len(it.ents) {
		return []value{false, nil, nil}
	}
	e := it.ents[it.pos]
	it.pos++
	return []value{true, e.k, e.v}
}
