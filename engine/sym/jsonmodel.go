package sym

// A model of encoding/json for the shapes the GeoJSON code uses (DESIGN
// section 6): Unmarshal of concrete JSON text into structs with json tags,
// nested slices, float64, string and json.RawMessage; Marshal of a slice whose
// elements implement MarshalJSON. The standard library's parser is used for
// the text itself (json.Valid, RawMessage splitting); numbers go through the
// same numeral-token table as strconv, so ordinates stay symbolic.

import (
	"encoding/json"
	"fmt"
	"go/types"
	"reflect"
	"sort"
	"strconv"
	"strings"

	"golang.org/x/tools/go/ssa"
)

func init() {
	externals["encoding/json.Unmarshal"] = extJSONUnmarshal
	externals["encoding/json.Marshal"] = extJSONMarshal
	externals["encoding/json.Valid"] = func(fr *frame, a []value) value {
		b, ok := concreteBytes(a[0])
		if !ok {
			panic(unsupported{"json.Valid of symbolic text"})
		}
		return json.Valid(b)
	}
}

func concreteBytes(v value) ([]byte, bool) {
	bs, ok := v.([]value)
	if !ok {
		return nil, false
	}
	out := make([]byte, len(bs))
	for k, b := range bs {
		c, ok := b.(byte)
		if !ok {
			return nil, false
		}
		out[k] = c
	}
	return out, true
}

func bytesValue(b []byte) []value {
	out := make([]value, len(b))
	for k := range b {
		out[k] = b[k]
	}
	return out
}

func (i *interpreter) errorValue(msg string) value {
	errPkg := i.prog.ImportedPackage("errors")
	if errPkg != nil {
		if es := errPkg.Type("errorString"); es != nil {
			var cell value = structure{msg}
			return iface{t: types.NewPointer(es.Type()), v: &cell}
		}
	}
	panic(unsupported{"errors.errorString not loaded"})
}

func extJSONUnmarshal(fr *frame, a []value) value {
	i := fr.i
	i.noteStub("encoding/json.Unmarshal (model)")
	data, ok := concreteBytes(a[0])
	if !ok {
		panic(unsupported{"json.Unmarshal of symbolic text"})
	}
	dst, ok := a[1].(iface)
	if !ok || dst.t == nil {
		return i.errorValue("json: Unmarshal(nil)")
	}
	pt, ok := dst.t.Underlying().(*types.Pointer)
	if !ok {
		return i.errorValue("json: Unmarshal(non-pointer " + dst.t.String() + ")")
	}
	ptr := dst.v.(*value)
	if ptr == nil {
		return i.errorValue("json: Unmarshal(nil " + dst.t.String() + ")")
	}
	if !json.Valid(data) {
		return i.errorValue("invalid character in JSON input")
	}
	v, err := i.jsonDecode(data, pt.Elem(), load(pt.Elem(), ptr))
	if err != nil {
		return i.errorValue(err.Error())
	}
	i.store(pt.Elem(), ptr, v)
	return iface{}
}

func isRawMessage(t types.Type) bool {
	n, ok := t.(*types.Named)
	return ok && n.Obj().Name() == "RawMessage" && n.Obj().Pkg() != nil && n.Obj().Pkg().Path() == "encoding/json"
}

// jsonDecode decodes raw into a value of type t; old is the current value
// (kept for fields that are absent).
func (i *interpreter) jsonDecode(raw []byte, t types.Type, old value) (value, error) {
	trimmed := strings.TrimSpace(string(raw))
	if isRawMessage(t) {
		return bytesValue([]byte(trimmed)), nil
	}
	var m *ssa.Function
	if _, isIface := t.Underlying().(*types.Interface); !isIface {
		if sel := i.prog.MethodSets.MethodSet(types.NewPointer(t)).Lookup(nil, "UnmarshalJSON"); sel != nil {
			m = i.prog.MethodValue(sel)
		}
	}
	// encoding/json hands a JSON null to the UnmarshalJSON of a non-pointer
	// destination too (only settable pointers, maps, slices and interfaces are
	// set to nil without a call); a pointer type never gets here because its
	// pointer has no such method.
	if m != nil {
		{
			// a type with its own UnmarshalJSON (e.g. geom.Geometry inside a Feature)
			var cell value = zero(t)
			r := call(i, nil, 0, m, []value{&cell, bytesValue([]byte(trimmed))})
			if e, ok := r.(iface); ok && e.t != nil {
				return nil, fmt.Errorf("UnmarshalJSON failed")
			}
			return load(t, &cell), nil
		}
	}
	switch u := t.Underlying().(type) {
	case *types.Basic:
		switch {
		case u.Kind() == types.String:
			if trimmed == "null" {
				return old, nil
			}
			var s string
			if err := json.Unmarshal([]byte(trimmed), &s); err != nil {
				return nil, fmt.Errorf("json: cannot unmarshal into Go value of type string")
			}
			return s, nil
		case u.Kind() == types.Float64:
			if trimmed == "null" {
				return old, nil
			}
			if trimmed == "" || !(trimmed[0] == '-' || (trimmed[0] >= '0' && trimmed[0] <= '9')) {
				return nil, fmt.Errorf("json: cannot unmarshal into Go value of type float64")
			}
			if i.ps != nil && len(trimmed) == 7 {
				if n, err := strconv.Atoi(trimmed); err == nil && n >= floatTokenBase && n-floatTokenBase < len(i.ps.floatTokens) {
					return sym{i.ps.floatTokens[n-floatTokenBase], types.Float64}, nil
				}
			}
			f, err := strconv.ParseFloat(trimmed, 64)
			if err != nil {
				return nil, fmt.Errorf("json: cannot unmarshal number %s into Go value of type float64", trimmed)
			}
			return f, nil
		case u.Kind() == types.Bool:
			if trimmed == "true" {
				return true, nil
			}
			if trimmed == "false" {
				return false, nil
			}
			if trimmed == "null" {
				return old, nil
			}
			return nil, fmt.Errorf("json: cannot unmarshal into Go value of type bool")
		case u.Info()&types.IsInteger != 0:
			if trimmed == "null" {
				return old, nil
			}
			n, err := strconv.ParseInt(trimmed, 10, 64)
			if err != nil {
				return nil, fmt.Errorf("json: cannot unmarshal number into Go value of type %s", t)
			}
			return concreteOfKind(u.Kind(), uint64(n)), nil
		}
	case *types.Slice:
		if trimmed == "null" {
			return []value(nil), nil
		}
		var elems []json.RawMessage
		if err := json.Unmarshal([]byte(trimmed), &elems); err != nil {
			return nil, fmt.Errorf("json: cannot unmarshal into Go value of type %s", t)
		}
		out := make([]value, len(elems))
		for k, e := range elems {
			v, err := i.jsonDecode(e, u.Elem(), zero(u.Elem()))
			if err != nil {
				return nil, err
			}
			out[k] = v
		}
		return out, nil
	case *types.Struct:
		if trimmed == "null" {
			return old, nil
		}
		var obj map[string]json.RawMessage
		if err := json.Unmarshal([]byte(trimmed), &obj); err != nil {
			return nil, fmt.Errorf("json: cannot unmarshal into Go value of type %s", t)
		}
		cur := copyVal(old).(structure)
		for f := 0; f < u.NumFields(); f++ {
			fld := u.Field(f)
			if !fld.Exported() {
				continue
			}
			name := fld.Name()
			if tag := reflect.StructTag(u.Tag(f)).Get("json"); tag != "" {
				if n := strings.Split(tag, ",")[0]; n == "-" {
					continue
				} else if n != "" {
					name = n
				}
			}
			raw, ok := obj[name]
			if !ok {
				for k, v := range obj { // case-insensitive fallback, as encoding/json does
					if strings.EqualFold(k, name) {
						raw, ok = v, true
						break
					}
				}
			}
			if !ok {
				continue
			}
			v, err := i.jsonDecode(raw, fld.Type(), cur[f])
			if err != nil {
				return nil, err
			}
			cur[f] = v
		}
		return cur, nil
	case *types.Map:
		if trimmed == "null" {
			return old, nil
		}
		if b, ok := u.Key().Underlying().(*types.Basic); !ok || b.Kind() != types.String {
			break
		}
		keys, vals, err := jsonObjectMembers([]byte(trimmed))
		if err != nil {
			return nil, fmt.Errorf("json: cannot unmarshal into Go value of type %s", t)
		}
		m, _ := old.(*smap)
		if m == nil {
			m = makeMap(u.Key())
		}
		for k := range keys {
			var prev value = zero(u.Elem())
			if pv, ok := i.mapLookup(m, keys[k]); ok {
				prev = pv
			}
			v, err := i.jsonDecode(vals[k], u.Elem(), prev)
			if err != nil {
				return nil, err
			}
			i.mapInsert(m, keys[k], v)
		}
		return m, nil
	case *types.Interface:
		if u.NumMethods() != 0 {
			break
		}
		var nat interface{}
		if err := json.Unmarshal([]byte(trimmed), &nat); err != nil {
			return nil, fmt.Errorf("json: cannot unmarshal into Go value of type %s", t)
		}
		return i.jsonDynamic(nat), nil
	case *types.Pointer:
		if trimmed == "null" {
			return (*value)(nil), nil
		}
		v, err := i.jsonDecode(raw, u.Elem(), zero(u.Elem()))
		if err != nil {
			return nil, err
		}
		cell := v
		return &cell, nil
	}
	panic(unsupported{"json.Unmarshal model: destination type " + t.String()})
}

var (
	jsonEmptyIface = types.NewInterfaceType(nil, nil).Complete()
	jsonAnySlice   = types.NewSlice(jsonEmptyIface)
	jsonAnyMap     = types.NewMap(types.Typ[types.String], jsonEmptyIface)
)

// jsonObjectMembers returns the members of a JSON object in document order
// (a later duplicate name overwrites an earlier one when inserted, as in
// encoding/json).
func jsonObjectMembers(raw []byte) ([]string, []json.RawMessage, error) {
	dec := json.NewDecoder(strings.NewReader(string(raw)))
	tok, err := dec.Token()
	if err != nil {
		return nil, nil, err
	}
	if d, ok := tok.(json.Delim); !ok || d != '{' {
		return nil, nil, fmt.Errorf("not an object")
	}
	var keys []string
	var vals []json.RawMessage
	for dec.More() {
		kt, err := dec.Token()
		if err != nil {
			return nil, nil, err
		}
		k, ok := kt.(string)
		if !ok {
			return nil, nil, fmt.Errorf("object key is not a string")
		}
		var v json.RawMessage
		if err := dec.Decode(&v); err != nil {
			return nil, nil, err
		}
		keys = append(keys, k)
		vals = append(vals, v)
	}
	return keys, vals, nil
}

// jsonDynamic converts what encoding/json stores in an interface{} into the
// interpreter's representation of the same dynamic value.
func (i *interpreter) jsonDynamic(nat interface{}) value {
	switch x := nat.(type) {
	case nil:
		return iface{}
	case bool:
		return iface{t: types.Typ[types.Bool], v: x}
	case float64:
		return iface{t: types.Typ[types.Float64], v: x}
	case string:
		return iface{t: types.Typ[types.String], v: x}
	case []interface{}:
		out := make([]value, len(x))
		for k, e := range x {
			out[k] = i.jsonDynamic(e)
		}
		return iface{t: jsonAnySlice, v: out}
	case map[string]interface{}:
		keys := make([]string, 0, len(x))
		for k := range x {
			keys = append(keys, k)
		}
		sort.Strings(keys)
		m := makeMap(types.Typ[types.String])
		for _, k := range keys {
			i.mapInsert(m, k, i.jsonDynamic(x[k]))
		}
		return iface{t: jsonAnyMap, v: m}
	}
	panic(unsupported{fmt.Sprintf("json model: dynamic value %T", nat)})
}

func jsonOmitEmpty(v value) bool {
	switch x := v.(type) {
	case iface:
		return x.t == nil
	case bool:
		return !x
	case string:
		return x == ""
	case float64:
		return x == 0
	case []value:
		return len(x) == 0
	case *smap:
		return x.len() == 0
	case *value:
		return x == nil
	case int:
		return x == 0
	case int64:
		return x == 0
	}
	return false
}

// extJSONMarshal: a slice (or a single value) of types that implement
// MarshalJSON.
func extJSONMarshal(fr *frame, a []value) value {
	i := fr.i
	i.noteStub("encoding/json.Marshal (model)")
	src, ok := a[0].(iface)
	if !ok || src.t == nil {
		return tuple{bytesValue([]byte("null")), iface{}}
	}
	out, err := i.jsonEncode(fr, src.t, src.v)
	if err != nil {
		return tuple{[]value(nil), i.errorValue(err.Error())}
	}
	return tuple{out, iface{}}
}

func (i *interpreter) jsonEncode(fr *frame, t types.Type, v value) ([]value, error) {
	var m *ssa.Function
	if ms := i.prog.MethodSets.MethodSet(t); ms != nil {
		if sel := ms.Lookup(nil, "MarshalJSON"); sel != nil {
			m = i.prog.MethodValue(sel)
		}
	}
	if m != nil {
		r := call(i, fr.caller, 0, m, []value{v}).(tuple)
		if e, ok := r[1].(iface); ok && e.t != nil {
			return nil, fmt.Errorf("MarshalJSON failed")
		}
		return r[0].([]value), nil
	}
	switch u := t.Underlying().(type) {
	case *types.Slice:
		sl := v.([]value)
		if sl == nil {
			return bytesValue([]byte("null")), nil
		}
		out := []value{byte('[')}
		for k, e := range sl {
			if k > 0 {
				out = append(out, byte(','))
			}
			b, err := i.jsonEncode(fr, u.Elem(), e)
			if err != nil {
				return nil, err
			}
			out = append(out, b...)
		}
		return append(out, byte(']')), nil
	case *types.Basic:
		switch x := v.(type) {
		case string:
			b, _ := json.Marshal(x)
			return bytesValue(b), nil
		case bool:
			b, _ := json.Marshal(x)
			return bytesValue(b), nil
		case float64:
			b, err := json.Marshal(x)
			if err != nil {
				return nil, err
			}
			return bytesValue(b), nil
		case int:
			return bytesValue([]byte(strconv.Itoa(x))), nil
		case int64:
			return bytesValue([]byte(strconv.FormatInt(x, 10))), nil
		}
	case *types.Interface:
		d, ok := v.(iface)
		if !ok || d.t == nil {
			return bytesValue([]byte("null")), nil
		}
		return i.jsonEncode(fr, d.t, d.v)
	case *types.Pointer:
		p, _ := v.(*value)
		if p == nil {
			return bytesValue([]byte("null")), nil
		}
		return i.jsonEncode(fr, u.Elem(), load(u.Elem(), p))
	case *types.Map:
		m, _ := v.(*smap)
		if m == nil {
			return bytesValue([]byte("null")), nil
		}
		type kv struct {
			k string
			v value
		}
		var ents []kv
		for _, e := range m.ents {
			ks, ok := e.k.(string)
			if !ok {
				panic(unsupported{"json.Marshal model: map key is not a concrete string"})
			}
			ents = append(ents, kv{ks, e.v})
		}
		sort.Slice(ents, func(a, b int) bool { return ents[a].k < ents[b].k })
		out := []value{byte('{')}
		for k, e := range ents {
			if k > 0 {
				out = append(out, byte(','))
			}
			kb, _ := json.Marshal(e.k)
			out = append(out, bytesValue(kb)...)
			out = append(out, byte(':'))
			b, err := i.jsonEncode(fr, u.Elem(), e.v)
			if err != nil {
				return nil, err
			}
			out = append(out, b...)
		}
		return append(out, byte('}')), nil
	case *types.Struct:
		st := v.(structure)
		out := []value{byte('{')}
		first := true
		for f := 0; f < u.NumFields(); f++ {
			fld := u.Field(f)
			if !fld.Exported() {
				continue
			}
			name := fld.Name()
			omit := false
			if tag := reflect.StructTag(u.Tag(f)).Get("json"); tag != "" {
				parts := strings.Split(tag, ",")
				if parts[0] == "-" && len(parts) == 1 {
					continue
				}
				if parts[0] != "" {
					name = parts[0]
				}
				for _, o := range parts[1:] {
					if o == "omitempty" {
						omit = true
					}
				}
			}
			if omit && jsonOmitEmpty(st[f]) {
				continue
			}
			if !first {
				out = append(out, byte(','))
			}
			first = false
			kb, _ := json.Marshal(name)
			out = append(out, bytesValue(kb)...)
			out = append(out, byte(':'))
			b, err := i.jsonEncode(fr, fld.Type(), st[f])
			if err != nil {
				return nil, err
			}
			out = append(out, b...)
		}
		return append(out, byte('}')), nil
	}
	panic(unsupported{"json.Marshal model: source type " + t.String()})
}
