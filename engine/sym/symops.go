package sym

// Symbolic versions of the scalar operators.

import (
	"fmt"
	"go/token"
	"go/types"
	"math"
	"math/big"
)

func kindWidth(k types.BasicKind) int {
	switch k {
	case types.Int8, types.Uint8:
		return 8
	case types.Int16, types.Uint16:
		return 16
	case types.Int32, types.Uint32:
		return 32
	case types.Int, types.Int64, types.Uint, types.Uint64, types.Uintptr:
		return 64
	}
	panic(fmt.Sprintf("kindWidth: %v", k))
}

func kindSigned(k types.BasicKind) bool {
	switch k {
	case types.Int, types.Int8, types.Int16, types.Int32, types.Int64:
		return true
	}
	return false
}

func isIntKind(k types.BasicKind) bool {
	switch k {
	case types.Int, types.Int8, types.Int16, types.Int32, types.Int64,
		types.Uint, types.Uint8, types.Uint16, types.Uint32, types.Uint64, types.Uintptr:
		return true
	}
	return false
}

// kindOf returns the basic kind of a concrete or symbolic scalar.
func kindOf(v value) types.BasicKind {
	switch v := v.(type) {
	case sym:
		return v.k
	case bool:
		return types.Bool
	case int:
		return types.Int
	case int8:
		return types.Int8
	case int16:
		return types.Int16
	case int32:
		return types.Int32
	case int64:
		return types.Int64
	case uint:
		return types.Uint
	case uint8:
		return types.Uint8
	case uint16:
		return types.Uint16
	case uint32:
		return types.Uint32
	case uint64:
		return types.Uint64
	case uintptr:
		return types.Uintptr
	case float64:
		return types.Float64
	case float32:
		return types.Float32
	}
	return types.Invalid
}

// concreteOfKind builds the concrete Go value of kind k from raw bits.
func concreteOfKind(k types.BasicKind, u uint64) value {
	switch k {
	case types.Bool:
		return u != 0
	case types.Int:
		return int(u)
	case types.Int8:
		return int8(u)
	case types.Int16:
		return int16(u)
	case types.Int32:
		return int32(u)
	case types.Int64:
		return int64(u)
	case types.Uint:
		return uint(u)
	case types.Uint8:
		return uint8(u)
	case types.Uint16:
		return uint16(u)
	case types.Uint32:
		return uint32(u)
	case types.Uint64:
		return u
	case types.Uintptr:
		return uintptr(u)
	}
	panic("concreteOfKind")
}

// bvTerm returns the bit-vector term of an integer value.
func (i *interpreter) bvTerm(v value) *Term {
	switch v := v.(type) {
	case sym:
		return v.t
	}
	k := kindOf(v)
	if !isIntKind(k) {
		panic(fmt.Sprintf("bvTerm of %T", v))
	}
	return i.st.BVConst(uint64(asInt64(v)), kindWidth(k))
}

func (i *interpreter) boolTerm(v value) *Term {
	switch v := v.(type) {
	case sym:
		return v.t
	case bool:
		return i.st.Bool(v)
	}
	panic(fmt.Sprintf("boolTerm of %T", v))
}

// mkSym wraps a term, collapsing constants back to concrete values.
func (i *interpreter) mkSym(t *Term, k types.BasicKind) value {
	switch t.Op {
	case "true":
		return true
	case "false":
		return false
	case "bvconst":
		return concreteOfKind(k, uint64(sx(t.BV, t.S.W)))
	case "fpconst":
		return t.F
	case "realconst":
		if isIntKind(k) {
			if t.R.IsInt() && t.R.Num().IsInt64() {
				return concreteOfKind(k, uint64(t.R.Num().Int64()))
			}
		} else if t.ri != nil && t.ri.exact {
			f, _ := t.R.Float64()
			return f
		}
	}
	return sym{t, k}
}

// ---------------------------------------------------------------- floats

// floatDomain of a pair of operands: FP or Real.
func (i *interpreter) floatTerms(x, y value) (a, b *Term, real bool) {
	sxv, xs := x.(sym)
	syv, ys := y.(sym)
	switch {
	case xs && ys:
		if sxv.t.S.K != syv.t.S.K {
			i.abort("unsupported", "mixed float domains (FP and EXACT) in one operation")
		}
		return sxv.t, syv.t, sxv.t.S.K == KReal
	case xs:
		if sxv.t.S.K == KReal {
			return sxv.t, i.realConst(y.(float64)), true
		}
		return sxv.t, i.st.FPConst(y.(float64)), false
	case ys:
		if syv.t.S.K == KReal {
			return i.realConst(x.(float64)), syv.t, true
		}
		return i.st.FPConst(x.(float64)), syv.t, false
	}
	panic("floatTerms: no symbolic operand")
}

func (i *interpreter) realConst(f float64) *Term {
	if math.IsNaN(f) || math.IsInf(f, 0) {
		i.abort("unsupported", "non-finite constant meets an EXACT-domain value")
	}
	return i.st.RealOfFloat(f)
}

func (i *interpreter) floatTerm1(x value) (*Term, bool) {
	if s, ok := x.(sym); ok {
		return s.t, s.t.S.K == KReal
	}
	return i.st.FPConst(x.(float64)), false
}

func isInf(v value, sign int) bool {
	f, ok := v.(float64)
	return ok && math.IsInf(f, sign)
}

func (i *interpreter) symFloatBinop(op token.Token, x, y value) value {
	// comparisons of an EXACT value against a concrete infinity fold
	if sxv, ok := x.(sym); ok && sxv.t.S.K == KReal {
		if f, ok := y.(float64); ok && (math.IsInf(f, 0) || math.IsNaN(f)) {
			return foldInfCmp(op, 0, f, false)
		}
	}
	if syv, ok := y.(sym); ok && syv.t.S.K == KReal {
		if f, ok := x.(float64); ok && (math.IsInf(f, 0) || math.IsNaN(f)) {
			return foldInfCmp(op, f, 0, true)
		}
	}
	a, b, real := i.floatTerms(x, y)
	st := i.st
	if real {
		switch op {
		case token.ADD, token.SUB, token.MUL:
			o := map[token.Token]string{token.ADD: "+", token.SUB: "-", token.MUL: "*"}[op]
			if t, ok := st.RealArith(o, a, b); ok {
				return i.mkSym(t, types.Float64)
			}
			return i.inexactArith(o, a, b)
		case token.QUO:
			if b.Op == "ite" && IteConstLeaves(b) {
				b = i.resolveIte(b)
			}
			// division by zero gives Inf/NaN which the exact domain cannot carry
			if b.Op == "realconst" {
				if b.R.Sign() == 0 {
					i.abort("unsupported", "EXACT-domain division by constant zero")
				}
			} else if i.decide(st.Eq(b, st.RealOfFloat(0))) {
				i.abort("unsupported", "EXACT-domain division by zero (Inf/NaN result)")
			}
			if t, ok := st.RealArith("/", a, b); ok {
				return i.mkSym(t, types.Float64)
			}
			i.noteInexact("/")
			q := st.InexactVar("/", a, b)
			i.assumeDivRel(q, a, b)
			return sym{q, types.Float64}
		case token.EQL:
			return i.mkSym(st.Eq(a, b), types.Bool)
		case token.NEQ:
			return i.mkSym(st.Not(st.Eq(a, b)), types.Bool)
		case token.LSS:
			return i.mkSym(st.RealCmp("<", a, b), types.Bool)
		case token.LEQ:
			return i.mkSym(st.RealCmp("<=", a, b), types.Bool)
		case token.GTR:
			return i.mkSym(st.RealCmp("<", b, a), types.Bool)
		case token.GEQ:
			return i.mkSym(st.RealCmp("<=", b, a), types.Bool)
		}
		panic(fmt.Sprintf("symFloatBinop(real): %s", op))
	}
	switch op {
	case token.ADD:
		return i.mkSym(st.FP2("fp.add", a, b), types.Float64)
	case token.SUB:
		return i.mkSym(st.FP2("fp.sub", a, b), types.Float64)
	case token.MUL:
		return i.mkSym(i.fpMul(a, b), types.Float64)
	case token.QUO:
		return i.mkSym(i.fpDiv(a, b), types.Float64)
	case token.EQL:
		return i.mkSym(st.FPCmp("fp.eq", a, b), types.Bool)
	case token.NEQ:
		return i.mkSym(st.Not(st.FPCmp("fp.eq", a, b)), types.Bool)
	case token.LSS:
		return i.mkSym(st.FPCmp("fp.lt", a, b), types.Bool)
	case token.LEQ:
		return i.mkSym(st.FPCmp("fp.leq", a, b), types.Bool)
	case token.GTR:
		return i.mkSym(st.FPCmp("fp.lt", b, a), types.Bool)
	case token.GEQ:
		return i.mkSym(st.FPCmp("fp.leq", b, a), types.Bool)
	}
	panic(fmt.Sprintf("symFloatBinop(fp): %s", op))
}

// resolveIte forks over the conditions of an ite tree with constant leaves
// and returns the selected constant.
func (i *interpreter) resolveIte(t *Term) *Term {
	for t.Op == "ite" {
		if i.decide(t.Args[0]) {
			t = t.Args[1]
		} else {
			t = t.Args[2]
		}
	}
	return t
}

func isRealConst(t *Term, v int64) bool {
	return t.Op == "realconst" && t.R.IsInt() && t.R.Num().IsInt64() && t.R.Num().Int64() == v
}

// inexactArith: a float operation on the exact domain whose result is not
// provably exact. The result is an Ackermannised unknown constrained only by
// facts that hold for every correctly rounded finite result (identities with
// 0 and 1, sign rules, monotonicity of rounding).
func (i *interpreter) inexactArith(o string, a, b *Term) value {
	st := i.st
	z := st.RealOfFloat(0)
	switch o {
	case "+":
		if isRealConst(a, 0) {
			return sym{b, types.Float64}
		}
		if isRealConst(b, 0) {
			return sym{a, types.Float64}
		}
	case "-":
		if isRealConst(b, 0) {
			return sym{a, types.Float64}
		}
	case "*":
		if isRealConst(a, 1) {
			return sym{b, types.Float64}
		}
		if isRealConst(b, 1) {
			return sym{a, types.Float64}
		}
		if isRealConst(a, 0) || isRealConst(b, 0) {
			return float64(0)
		}
	}
	i.noteInexact(o)
	if o == "+" || o == "*" {
		if a.id > b.id {
			a, b = b, a
		}
	}
	r := st.InexactVar(o, a, b)
	le := func(x, y *Term) *Term { return st.RealCmp("<=", x, y) }
	imp := func(p, q *Term) { i.addFact(st.Or(st.Not(p), q)) }
	switch o {
	case "+":
		imp(le(z, b), le(a, r))
		imp(le(b, z), le(r, a))
		imp(le(z, a), le(b, r))
		imp(le(a, z), le(r, b))
	case "-":
		imp(le(z, b), le(r, a))
		imp(le(b, z), le(a, r))
		imp(le(b, a), le(z, r))
		imp(le(a, b), le(r, z))
	case "*":
		imp(st.And(le(z, a), le(z, b)), le(z, r))
		imp(st.And(le(a, z), le(b, z)), le(z, r))
		imp(st.And(le(z, a), le(b, z)), le(r, z))
		imp(st.And(le(a, z), le(z, b)), le(r, z))
	}
	return sym{r, types.Float64}
}

// assumeDivRel adds the sign facts that hold for a correctly rounded finite
// quotient q = fl(a/b) with b != 0 and no underflow to zero assumed:
// sign(q) = sign(a)*sign(b) or q = 0 when a = 0.
func (i *interpreter) assumeDivRel(q, a, b *Term) {
	st := i.st
	z := st.RealOfFloat(0)
	// a == 0 -> q == 0
	i.addFact(st.Or(st.Not(st.Eq(a, z)), st.Eq(q, z)))
	// q*b has the sign of a (weakly): (a > 0 -> q*b >= 0) etc. expressed linearly via cases on b's sign
	bpos := st.RealCmp("<", z, b)
	apos := st.RealCmp("<", z, a)
	aneg := st.RealCmp("<", a, z)
	qnn := st.RealCmp("<=", z, q)
	qnp := st.RealCmp("<=", q, z)
	// same signs -> q >= 0 ; different -> q <= 0
	i.addFact(st.Or(st.Not(st.And(apos, bpos)), qnn))
	i.addFact(st.Or(st.Not(st.And(aneg, st.Not(bpos))), qnn))
	i.addFact(st.Or(st.Not(st.And(apos, st.Not(bpos))), qnp))
	i.addFact(st.Or(st.Not(st.And(aneg, bpos)), qnp))
}

func foldInfCmp(op token.Token, x, y float64, xIsInf bool) value {
	// One side is a finite real (represented by 0 here is NOT right in general,
	// so decide by the infinite side only).
	var inf float64
	if xIsInf {
		inf = x
	} else {
		inf = y
	}
	if math.IsNaN(inf) {
		return op == token.NEQ
	}
	pos := inf > 0
	// relation of finite r to inf: r < +Inf, r > -Inf
	var lt bool // is left < right ?
	if xIsInf {
		lt = !pos // inf < r  iff inf is -Inf
	} else {
		lt = pos // r < inf iff inf is +Inf
	}
	switch op {
	case token.EQL:
		return false
	case token.NEQ:
		return true
	case token.LSS, token.LEQ:
		return lt
	case token.GTR, token.GEQ:
		return !lt
	}
	panic(unsupported{"arithmetic between an EXACT-domain value and a non-finite constant"})
}

func (i *interpreter) fpMul(a, b *Term) *Term {
	st := i.st
	if st.HuntMode {
		return st.FP2("fp.mul", a, b)
	}
	// x*1 = x, exactly, for every x
	if b.Op == "fpconst" && b.F == 1 {
		return a
	}
	if a.Op == "fpconst" && a.F == 1 {
		return b
	}
	if a.Op == "fpconst" && b.Op == "fpconst" {
		return st.FPConst(a.F * b.F)
	}
	if a.id > b.id { // commutativity
		a, b = b, a
	}
	i.noteUF("fmul")
	r := st.UF("fmul", SFP, a, b)
	i.ufNaNAxiom(r, a, b, true)
	return r
}

// ufNaNAxiom: IEEE facts about the product/quotient that the uninterpreted
// result must respect: it is NaN only for NaN operands or 0*inf (mul), 0/0 or
// inf/inf (div).
func (i *interpreter) ufNaNAxiom(r, a, b *Term, mul bool) {
	if i.ps == nil {
		return
	}
	st := i.st
	nanIn := st.Or(st.FPPred("fp.isNaN", a), st.FPPred("fp.isNaN", b))
	az := st.FPCmp("fp.eq", a, st.FPConst(0))
	bz := st.FPCmp("fp.eq", b, st.FPConst(0))
	ai := st.FPPred("fp.isInfinite", a)
	bi := st.FPPred("fp.isInfinite", b)
	var special *Term
	if mul {
		special = st.Or(st.And(az, bi), st.And(ai, bz))
	} else {
		special = st.Or(st.And(az, bz), st.And(ai, bi))
	}
	i.addFact(st.Eq(st.FPPred("fp.isNaN", r), st.Or(nanIn, special)))
}

func (i *interpreter) fpDiv(a, b *Term) *Term {
	st := i.st
	if st.HuntMode {
		return st.FP2("fp.div", a, b)
	}
	if b.Op == "fpconst" && b.F == 1 {
		return a
	}
	if a.Op == "fpconst" && b.Op == "fpconst" {
		return st.FPConst(a.F / b.F)
	}
	i.noteUF("fdiv")
	r := st.UF("fdiv", SFP, a, b)
	i.ufNaNAxiom(r, a, b, false)
	return r
}

// ---------------------------------------------------------------- binop / unop

func (i *interpreter) symBinop(op token.Token, t types.Type, x, y value) value {
	k := kindOf(x)
	if k == types.Invalid || (op != token.SHL && op != token.SHR && !isSym(x)) {
		if ky := kindOf(y); isSym(y) && op != token.SHL && op != token.SHR {
			k = ky
		}
	}
	st := i.st
	switch {
	case k == types.Float64:
		return i.symFloatBinop(op, x, y)
	case k == types.Bool:
		a, b := i.boolTerm(x), i.boolTerm(y)
		switch op {
		case token.EQL:
			return i.mkSym(st.Eq(a, b), types.Bool)
		case token.NEQ:
			return i.mkSym(st.Not(st.Eq(a, b)), types.Bool)
		case token.AND, token.LAND:
			return i.mkSym(st.And(a, b), types.Bool)
		case token.OR, token.LOR:
			return i.mkSym(st.Or(a, b), types.Bool)
		}
	case isIntKind(k) && (realSorted(x) || realSorted(y)):
		return i.intRealBinop(op, k, x, y)
	case isIntKind(k):
		a := i.bvTerm(x)
		w := a.S.W
		signed := kindSigned(k)
		if op == token.SHL || op == token.SHR {
			return i.symShift(op, k, a, y)
		}
		b := i.bvTerm(y)
		switch op {
		case token.ADD:
			return i.mkSym(st.BV2("bvadd", a, b), k)
		case token.SUB:
			return i.mkSym(st.BV2("bvsub", a, b), k)
		case token.MUL:
			return i.mkSym(st.BV2("bvmul", a, b), k)
		case token.QUO, token.REM:
			if i.decide(st.Eq(b, st.BVConst(0, w))) {
				i.rtPanic("runtime error: integer divide by zero")
			}
			var o string
			switch {
			case op == token.QUO && signed:
				o = "bvsdiv"
			case op == token.QUO:
				o = "bvudiv"
			case signed:
				o = "bvsrem"
			default:
				o = "bvurem"
			}
			return i.mkSym(st.BV2(o, a, b), k)
		case token.AND:
			return i.mkSym(st.BV2("bvand", a, b), k)
		case token.OR:
			return i.mkSym(st.BV2("bvor", a, b), k)
		case token.XOR:
			return i.mkSym(st.BV2("bvxor", a, b), k)
		case token.AND_NOT:
			return i.mkSym(st.BV2("bvand", a, st.BVNot(b)), k)
		case token.EQL:
			return i.mkSym(st.Eq(a, b), types.Bool)
		case token.NEQ:
			return i.mkSym(st.Not(st.Eq(a, b)), types.Bool)
		case token.LSS, token.LEQ, token.GTR, token.GEQ:
			lt, le := "bvult", "bvule"
			if signed {
				lt, le = "bvslt", "bvsle"
			}
			switch op {
			case token.LSS:
				return i.mkSym(st.BVCmp(lt, a, b), types.Bool)
			case token.LEQ:
				return i.mkSym(st.BVCmp(le, a, b), types.Bool)
			case token.GTR:
				return i.mkSym(st.BVCmp(lt, b, a), types.Bool)
			case token.GEQ:
				return i.mkSym(st.BVCmp(le, b, a), types.Bool)
			}
		}
	}
	panic(unsupported{fmt.Sprintf("symbolic binary op: %T %s %T", x, op, y)})
}

func realSorted(v value) bool {
	s, ok := v.(sym)
	return ok && s.t.S.K == KReal
}

// intRealBinop: integers that were obtained from exact-domain floats
// (int(math.Floor(x/w)) in the node set) are carried as exact reals; they only
// take part in +, -, * and comparisons, and stay far below 2^63.
func (i *interpreter) intRealBinop(op token.Token, k types.BasicKind, x, y value) value {
	st := i.st
	term := func(v value) *Term {
		if s, ok := v.(sym); ok {
			if s.t.S.K != KReal {
				panic(unsupported{"bit-vector integer mixed with an exact-domain integer"})
			}
			return s.t
		}
		return st.RealOfFloat(float64(asInt64(v)))
	}
	a, b := term(x), term(y)
	switch op {
	case token.ADD, token.SUB, token.MUL:
		o := map[token.Token]string{token.ADD: "+", token.SUB: "-", token.MUL: "*"}[op]
		t, ok := st.RealArith(o, a, b)
		if !ok {
			panic(unsupported{"exact-domain integer arithmetic out of range"})
		}
		return i.mkSym(t, k)
	case token.EQL:
		return i.mkSym(st.Eq(a, b), types.Bool)
	case token.NEQ:
		return i.mkSym(st.Not(st.Eq(a, b)), types.Bool)
	case token.LSS:
		return i.mkSym(st.RealCmp("<", a, b), types.Bool)
	case token.LEQ:
		return i.mkSym(st.RealCmp("<=", a, b), types.Bool)
	case token.GTR:
		return i.mkSym(st.RealCmp("<", b, a), types.Bool)
	case token.GEQ:
		return i.mkSym(st.RealCmp("<=", b, a), types.Bool)
	}
	panic(unsupported{fmt.Sprintf("operator %s on an exact-domain integer", op)})
}

func (i *interpreter) symShift(op token.Token, k types.BasicKind, a *Term, y value) value {
	st := i.st
	w := a.S.W
	ky := kindOf(y)
	// negative shift counts panic
	if kindSigned(ky) {
		if ys, ok := y.(sym); ok {
			if i.decide(st.BVCmp("bvslt", ys.t, st.BVConst(0, ys.t.S.W))) {
				i.rtPanic("runtime error: negative shift amount")
			}
		} else if asInt64(y) < 0 {
			i.rtPanic("runtime error: negative shift amount")
		}
	}
	b := i.bvTerm(y)
	// bring the count to width w, saturating
	var cnt *Term
	if b.S.W > w {
		big := st.BVCmp("bvule", st.BVConst(uint64(w), b.S.W), b)
		cnt = st.Ite(big, st.BVConst(uint64(w), w), st.Extract(w-1, 0, b))
	} else {
		cnt = st.ZExt(b, w)
	}
	var o string
	switch {
	case op == token.SHL:
		o = "bvshl"
	case kindSigned(k):
		o = "bvashr"
	default:
		o = "bvlshr"
	}
	return i.mkSym(st.BV2(o, a, cnt), k)
}

func (i *interpreter) symUnop(op token.Token, x sym) value {
	st := i.st
	switch {
	case x.k == types.Bool && op == token.NOT:
		return i.mkSym(st.Not(x.t), types.Bool)
	case x.k == types.Float64 && op == token.SUB:
		if x.t.S.K == KReal {
			if x.t.RealExact() {
				return i.mkSym(st.RealNeg(x.t), types.Float64)
			}
			return sym{st.InexactVar("neg", x.t), types.Float64}
		}
		return i.mkSym(st.FP1("fp.neg", x.t), types.Float64)
	case isIntKind(x.k) && op == token.SUB:
		return i.mkSym(st.BVNeg(x.t), x.k)
	case isIntKind(x.k) && op == token.XOR:
		return i.mkSym(st.BVNot(x.t), x.k)
	}
	panic(unsupported{fmt.Sprintf("symbolic unary op %s on kind %v", op, x.k)})
}

// symEq: equality of two scalars at least one of which is symbolic.
func (i *interpreter) symEq(k types.BasicKind, x, y value) value {
	return i.symBinop(token.EQL, nil, x, y)
}

// ---------------------------------------------------------------- conversions

func basicKind(t types.Type) (types.BasicKind, bool) {
	b, ok := t.Underlying().(*types.Basic)
	if !ok {
		return 0, false
	}
	return b.Kind(), true
}

func (i *interpreter) symConv(tDst types.Type, x sym) value {
	st := i.st
	dk, ok := basicKind(tDst)
	if !ok {
		panic(unsupported{fmt.Sprintf("conversion of symbolic %v to %s", x.k, tDst)})
	}
	switch {
	case isIntKind(x.k) && isIntKind(dk):
		w := kindWidth(dk)
		if kindSigned(x.k) {
			return i.mkSym(st.SExt(x.t, w), dk)
		}
		return i.mkSym(st.ZExt(x.t, w), dk)
	case isIntKind(x.k) && dk == types.Float64 && x.t.S.K == KReal:
		return i.mkSym(x.t, dk)
	case isIntKind(x.k) && isIntKind(dk) && x.t.S.K == KReal:
		if kindWidth(dk) == 64 {
			return sym{x.t, dk}
		}
		panic(unsupported{"narrowing of an exact-domain integer"})
	case isIntKind(x.k) && dk == types.Float64:
		if i.cfg.AbstractConv {
			i.noteUF("i2f")
			var r *Term
			if kindSigned(x.k) {
				r = st.UF("i2f_s", SFP, st.SExt(x.t, 64))
			} else {
				r = st.UF("i2f_u", SFP, st.ZExt(x.t, 64))
			}
			// an integer converts to a finite float
			if i.ps != nil {
				i.addFact(st.Not(st.Or(st.FPPred("fp.isNaN", r), st.FPPred("fp.isInfinite", r))))
			}
			return sym{r, dk}
		}
		if kindSigned(x.k) {
			return i.mkSym(st.app("fp_of_sbv", SFP, x.t), dk)
		}
		return i.mkSym(st.app("fp_of_ubv", SFP, x.t), dk)
	case x.k == types.Float64 && dk == types.Float64:
		return x
	case x.k == types.Float64 && isIntKind(dk):
		if x.t.S.K == KReal {
			if x.t.RealExact() && x.t.ri.s == 0 && (dk == types.Int || dk == types.Int64) {
				return i.mkSym(x.t, dk) // an integral exact value: carried as an exact-domain integer
			}
			panic(unsupported{"EXACT-domain float converted to an integer"})
		}
		var t64 *Term
		if i.cfg.AbstractConv {
			i.noteUF("f2i")
			name := "f2i_s"
			if !kindSigned(dk) {
				name = "f2i_u"
			}
			return i.mkSym(st.Extract(kindWidth(dk)-1, 0, st.UF(name, SBV(64), x.t)), dk)
		}
		if dk == types.Uint64 || dk == types.Uint || dk == types.Uintptr {
			// amd64: x < 2^63 ? cvttsd2sq(x) : cvttsd2sq(x-2^63) ^ 1<<63
			two63 := st.FPConst(9223372036854775808.0)
			small := st.FPCmp("fp.lt", x.t, two63)
			lo := st.app("fp_to_sbv64", SBV(64), x.t)
			hi := st.BV2("bvxor", st.app("fp_to_sbv64", SBV(64), st.FP2("fp.sub", x.t, two63)), st.BVConst(1<<63, 64))
			t64 = st.Ite(small, lo, hi)
		} else {
			t64 = st.app("fp_to_sbv64", SBV(64), x.t)
		}
		return i.mkSym(st.Extract(kindWidth(dk)-1, 0, t64), dk)
	case x.k == types.Bool && dk == types.Bool:
		return x
	}
	panic(unsupported{fmt.Sprintf("conversion of symbolic %v to %s", x.k, tDst)})
}

var _ = big.NewInt
