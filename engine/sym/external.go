package sym

// Externals: functions without Go bodies (assembly, runtime intrinsics) and
// the library areas replaced by models (fmt, reflection behind sort.Slice and
// errors.Is). See DESIGN section 6.

import (
	"bytes"
	"fmt"
	"go/types"
	"math"
	"math/big"
	"math/bits"
	"strconv"
	"strings"
	"unicode/utf8"

	"golang.org/x/tools/go/ssa"
)

type externalFn func(fr *frame, args []value) value

var externals = make(map[string]externalFn)

func init() {
	for k, v := range map[string]externalFn{
		"bytes.Equal":          extBytesEqual,
		"bytes.IndexByte":      extBytesIndexByte,
		"math.Abs":             extMathAbs,
		"math.Float64bits":     extMathFloat64bits,
		"math.Float64frombits": extMathFloat64frombits,
		"math.Float32bits": func(fr *frame, a []value) value {
			return math.Float32bits(a[0].(float32))
		},
		"math.Float32frombits": func(fr *frame, a []value) value {
			return math.Float32frombits(a[0].(uint32))
		},
		"math.Inf":     func(fr *frame, a []value) value { return math.Inf(int(fr.i.concretize(a[0], "math.Inf sign"))) },
		"math.NaN":     func(fr *frame, a []value) value { return math.NaN() },
		"math.IsNaN":   extMathIsNaN,
		"math.IsInf":   extMathIsInf,
		"math.Sqrt":    extMathSqrt,
		"math.sqrt":    extMathSqrt,
		"math.Min":     extMathMin,
		"math.Max":     extMathMax,
		"math.Floor":   func(fr *frame, a []value) value { return fr.i.roundOp("fp.floor", math.Floor, a[0]) },
		"math.Ceil":    func(fr *frame, a []value) value { return fr.i.roundOp("fp.ceil", math.Ceil, a[0]) },
		"math.Trunc":   func(fr *frame, a []value) value { return fr.i.roundOp("fp.trunc", math.Trunc, a[0]) },
		"math.Round":   func(fr *frame, a []value) value { return fr.i.roundOp("fp.round", math.Round, a[0]) },
		"math.Pow10":   extMathPow10,
		"math.Signbit": extMathSignbit,
		"math.Copysign": func(fr *frame, a []value) value {
			return math.Copysign(concF(a[0], "math.Copysign"), concF(a[1], "math.Copysign"))
		},
		"math.Exp":   func(fr *frame, a []value) value { return math.Exp(concF(a[0], "math.Exp")) },
		"math.Log":   func(fr *frame, a []value) value { return math.Log(concF(a[0], "math.Log")) },
		"math.Ldexp": func(fr *frame, a []value) value { return math.Ldexp(concF(a[0], "math.Ldexp"), a[1].(int)) },
		"math.Mod":   func(fr *frame, a []value) value { return math.Mod(concF(a[0], "math.Mod"), concF(a[1], "math.Mod")) },
		"math.Hypot": func(fr *frame, a []value) value {
			return math.Hypot(concF(a[0], "math.Hypot"), concF(a[1], "math.Hypot"))
		},
		"math.Sin": func(fr *frame, a []value) value { return math.Sin(concF(a[0], "math.Sin")) },
		"math.Cos": func(fr *frame, a []value) value { return math.Cos(concF(a[0], "math.Cos")) },
		"math.Atan2": func(fr *frame, a []value) value {
			return math.Atan2(concF(a[0], "math.Atan2"), concF(a[1], "math.Atan2"))
		},
		"math.Pow": func(fr *frame, a []value) value { return math.Pow(concF(a[0], "math.Pow"), concF(a[1], "math.Pow")) },
		"math.Modf": func(fr *frame, a []value) value {
			x, y := math.Modf(concF(a[0], "math.Modf"))
			return tuple{x, y}
		},
		"math.Frexp": func(fr *frame, a []value) value {
			x, y := math.Frexp(concF(a[0], "math.Frexp"))
			return tuple{x, y}
		},
		"math.FMA": func(fr *frame, a []value) value {
			return math.FMA(concF(a[0], "math.FMA"), concF(a[1], "math.FMA"), concF(a[2], "math.FMA"))
		},
		"math/bits.Mul64": func(fr *frame, a []value) value {
			hi, lo := bits.Mul64(a[0].(uint64), a[1].(uint64))
			return tuple{hi, lo}
		},
		"math/bits.Add64": func(fr *frame, a []value) value {
			s, c := bits.Add64(a[0].(uint64), a[1].(uint64), a[2].(uint64))
			return tuple{s, c}
		},

		"fmt.Sprintf":  extFmtSprintf,
		"fmt.Sprint":   extFmtSprint,
		"fmt.Sprintln": extFmtSprint,
		"fmt.Errorf":   extFmtErrorf,
		"fmt.Fprintf":  func(fr *frame, a []value) value { fr.i.noteStub("fmt.Fprintf"); return tuple{0, iface{}} },
		"fmt.Printf":   func(fr *frame, a []value) value { fr.i.noteStub("fmt.Printf"); return tuple{0, iface{}} },
		"fmt.Println":  func(fr *frame, a []value) value { fr.i.noteStub("fmt.Println"); return tuple{0, iface{}} },
		"log.Printf":   func(fr *frame, a []value) value { fr.i.noteStub("log.Printf"); return nil },
		"log.Println":  func(fr *frame, a []value) value { fr.i.noteStub("log.Println"); return nil },

		"errors.Is": extErrorsIs,
		"github.com/peterstace/simplefeatures/geom.ulpSize": extGeomUlpSize,
		"internal/reflectlite.TypeOf":                       extReflectliteDummyType,
		"(*internal/reflectlite.rtype).Elem":                extReflectliteDummyType,

		"sort.Slice":       extSortSlice,
		"sort.SliceStable": extSortSliceStable,

		"(*strings.Builder).copyCheck": func(fr *frame, a []value) value { return nil },
		"(*strings.Builder).String":    extStringsBuilderString,
		"strings.EqualFold":            func(fr *frame, a []value) value { return strings.EqualFold(a[0].(string), a[1].(string)) },
		"strings.ToUpper":              func(fr *frame, a []value) value { return strings.ToUpper(a[0].(string)) },
		"strings.ToLower":              func(fr *frame, a []value) value { return strings.ToLower(a[0].(string)) },
		"strings.Index":                func(fr *frame, a []value) value { return strings.Index(a[0].(string), a[1].(string)) },
		"strings.IndexByte":            func(fr *frame, a []value) value { return strings.IndexByte(a[0].(string), a[1].(byte)) },
		"strings.Count":                func(fr *frame, a []value) value { return strings.Count(a[0].(string), a[1].(string)) },
		"strings.Replace": func(fr *frame, a []value) value {
			return strings.Replace(a[0].(string), a[1].(string), a[2].(string), a[3].(int))
		},
		"internal/bytealg.IndexByteString": func(fr *frame, a []value) value {
			return strings.IndexByte(a[0].(string), a[1].(byte))
		},
		"internal/bytealg.IndexByte": extBytesIndexByte,
		"internal/bytealg.CountString": func(fr *frame, a []value) value {
			return strings.Count(a[0].(string), string([]byte{a[1].(byte)}))
		},
		"internal/bytealg.IndexString": func(fr *frame, a []value) value { return strings.Index(a[0].(string), a[1].(string)) },
		"internal/bytealg.Equal":       extBytesEqual,
		"internal/stringslite.Index":   func(fr *frame, a []value) value { return strings.Index(a[0].(string), a[1].(string)) },
		"internal/stringslite.IndexByte": func(fr *frame, a []value) value {
			return strings.IndexByte(a[0].(string), a[1].(byte))
		},
		"strconv.AppendFloat":        extStrconvAppendFloat,
		"strconv.FormatFloat":        extStrconvFormatFloat,
		"strconv.ParseFloat":         extStrconvParseFloat,
		"internal/stringslite.Clone": func(fr *frame, a []value) value { return a[0] }, // strings are immutable values here
		"strconv.Itoa":               func(fr *frame, a []value) value { return strconv.Itoa(int(fr.i.concretize(a[0], "strconv.Itoa"))) },
		"unicode/utf8.DecodeRuneInString": func(fr *frame, a []value) value {
			r, n := utf8.DecodeRuneInString(a[0].(string))
			return tuple{r, n}
		},
		"runtime.GOMAXPROCS": func(fr *frame, a []value) value { return 1 },
		"os.Getenv":          func(fr *frame, a []value) value { return "" },
		"time.Now":           func(fr *frame, a []value) value { panic(unsupported{"time.Now (environment read)"}) },
	} {
		externals[k] = v
	}
}

// concF forces a float argument to be concrete.
func concF(v value, what string) float64 {
	f, ok := v.(float64)
	if !ok {
		panic(unsupported{what + " of a symbolic float"})
	}
	return f
}

func extBytesEqual(fr *frame, args []value) value {
	a := args[0].([]value)
	b := args[1].([]value)
	if len(a) != len(b) {
		return false
	}
	i := fr.i
	var acc value = true
	for k := range a {
		acc = i.andv(acc, i.equals(types.Typ[types.Uint8], a[k], b[k]))
		if acc == false {
			return false
		}
	}
	return acc
}

func extBytesIndexByte(fr *frame, args []value) value {
	s := args[0].([]value)
	c := args[1]
	i := fr.i
	for k, b := range s {
		if i.truth(i.equals(types.Typ[types.Uint8], b, c)) {
			return k
		}
	}
	return -1
}

// ---------------------------------------------------------------- math

func extMathAbs(fr *frame, a []value) value {
	i := fr.i
	s, ok := a[0].(sym)
	if !ok {
		return math.Abs(a[0].(float64))
	}
	st := i.st
	if s.t.S.K == KReal {
		z := st.RealOfFloat(0)
		neg := st.RealCmp("<", s.t, z)
		var n *Term
		if s.t.RealExact() {
			n = st.RealNeg(s.t)
		} else {
			n = st.InexactVar("neg", s.t)
		}
		return i.mkSym(st.Ite(neg, n, s.t), types.Float64)
	}
	return i.mkSym(st.FP1("fp.abs", s.t), types.Float64)
}

func (i *interpreter) float64bits(s sym) value {
	st := i.st
	if s.t.S.K == KReal {
		// the bit pattern of an exact-domain value is opaque (an uninterpreted
		// function of the value): equal values have equal bits, nothing else
		i.noteUF("r2bits")
		return sym{st.UF("r2bits", SBV(64), s.t), types.Uint64}
	}
	if s.t.Op == "fp_of_bv" {
		return i.mkSym(s.t.Args[0], types.Uint64)
	}
	// a computed float: introduce its bit pattern (NaN payload unconstrained)
	b := st.Var(fmt.Sprintf("bits_%d", s.t.id), SBV(64))
	i.addFact(st.app("=", SBool, st.FPOfBV(b), s.t))
	return sym{b, types.Uint64}
}

func extMathFloat64bits(fr *frame, a []value) value {
	if s, ok := a[0].(sym); ok {
		return fr.i.float64bits(s)
	}
	return math.Float64bits(a[0].(float64))
}

func extMathFloat64frombits(fr *frame, a []value) value {
	if s, ok := a[0].(sym); ok && s.t.Op == "ufvar" && s.t.Name == "r2bits" {
		return sym{s.t.Args[0], types.Float64}
	}
	if s, ok := a[0].(sym); ok {
		return fr.i.mkSym(fr.i.st.FPOfBV(s.t), types.Float64)
	}
	return math.Float64frombits(a[0].(uint64))
}

func extMathIsNaN(fr *frame, a []value) value {
	s, ok := a[0].(sym)
	if !ok {
		return math.IsNaN(a[0].(float64))
	}
	if s.t.S.K == KReal {
		return false
	}
	return fr.i.mkSym(fr.i.st.FPPred("fp.isNaN", s.t), types.Bool)
}

func extMathIsInf(fr *frame, a []value) value {
	i := fr.i
	sign := int(i.concretize(a[1], "math.IsInf sign"))
	s, ok := a[0].(sym)
	if !ok {
		return math.IsInf(a[0].(float64), sign)
	}
	if s.t.S.K == KReal {
		return false
	}
	st := i.st
	inf := st.FPPred("fp.isInfinite", s.t)
	switch {
	case sign > 0:
		return i.mkSym(st.And(inf, st.FPCmp("fp.lt", st.FPConst(0), s.t)), types.Bool)
	case sign < 0:
		return i.mkSym(st.And(inf, st.FPCmp("fp.lt", s.t, st.FPConst(0))), types.Bool)
	}
	return i.mkSym(inf, types.Bool)
}

func extMathSqrt(fr *frame, a []value) value {
	i := fr.i
	s, ok := a[0].(sym)
	if !ok {
		return math.Sqrt(a[0].(float64))
	}
	st := i.st
	if s.t.S.K == KReal {
		z := st.RealOfFloat(0)
		if i.decide(st.RealCmp("<", s.t, z)) {
			i.abort("unsupported", "EXACT-domain sqrt of a negative value (NaN)")
		}
		i.noteInexact("sqrt")
		r := st.InexactVar("sqrt", s.t)
		// correctly rounded: r = sqrt(x)(1+d), |d| <= 2^-53  =>  x(1-2^-52) <= r^2 <= x(1+2^-51)
		i.addFact(st.RealCmp("<=", z, r))
		rr := st.app("*", SReal, r, r)
		lo := st.app("*", SReal, s.t, st.RealConst(new(big.Rat).Sub(big.NewRat(1, 1), ratPow2(-52))))
		hi := st.app("*", SReal, s.t, st.RealConst(new(big.Rat).Add(big.NewRat(1, 1), ratPow2(-51))))
		i.addFact(st.RealCmp("<=", lo, rr))
		i.addFact(st.RealCmp("<=", rr, hi))
		return sym{r, types.Float64}
	}
	if st.HuntMode {
		return i.mkSym(st.FP1("fp.sqrt", s.t), types.Float64)
	}
	i.noteUF("fsqrt")
	return sym{st.UF("fsqrt", SFP, s.t), types.Float64}
}

// math.Min / math.Max with Go's special cases.
func extMathMin(fr *frame, a []value) value { return fr.i.minmax(a[0], a[1], true) }
func extMathMax(fr *frame, a []value) value { return fr.i.minmax(a[0], a[1], false) }

func (i *interpreter) minmax(x, y value, isMin bool) value {
	if !isSym(x) && !isSym(y) {
		if isMin {
			return math.Min(x.(float64), y.(float64))
		}
		return math.Max(x.(float64), y.(float64))
	}
	st := i.st
	a, b, real := i.floatTerms(x, y)
	if real {
		var c *Term
		if isMin {
			c = st.RealCmp("<", a, b)
		} else {
			c = st.RealCmp("<", b, a)
		}
		return i.mkSym(st.Ite(c, a, b), types.Float64)
	}
	// FP: NaN if either is NaN; infinities dominate; zeros by sign; else compare.
	nan := st.Or(st.FPPred("fp.isNaN", a), st.FPPred("fp.isNaN", b))
	var pick, zeroPick *Term
	bothZero := st.And(st.FPCmp("fp.eq", a, st.FPConst(0)), st.FPCmp("fp.eq", b, st.FPConst(0)))
	aNeg := st.FPPred("fp.isNegative", a)
	if isMin {
		pick = st.Ite(st.FPCmp("fp.lt", a, b), a, b)
		zeroPick = st.Ite(aNeg, a, b) // -0 wins
	} else {
		pick = st.Ite(st.FPCmp("fp.lt", b, a), a, b)
		zeroPick = st.Ite(aNeg, b, a) // +0 wins
	}
	// Go: Min(x, -Inf) = -Inf even if x is NaN; Max(x, +Inf) = +Inf even if NaN.
	var infDom *Term
	if isMin {
		ninf := st.FPConst(math.Inf(-1))
		infDom = st.Or(st.FPCmp("fp.eq", a, ninf), st.FPCmp("fp.eq", b, ninf))
		r := st.Ite(infDom, ninf, st.Ite(nan, st.FPConst(math.NaN()), st.Ite(bothZero, zeroPick, pick)))
		return i.mkSym(r, types.Float64)
	}
	pinf := st.FPConst(math.Inf(1))
	infDom = st.Or(st.FPCmp("fp.eq", a, pinf), st.FPCmp("fp.eq", b, pinf))
	r := st.Ite(infDom, pinf, st.Ite(nan, st.FPConst(math.NaN()), st.Ite(bothZero, zeroPick, pick)))
	return i.mkSym(r, types.Float64)
}

func (i *interpreter) roundOp(op string, f func(float64) float64, x value) value {
	s, ok := x.(sym)
	if !ok {
		return f(x.(float64))
	}
	if s.t.S.K == KReal {
		if s.t.RealExact() && s.t.ri.s == 0 {
			return s // integral already
		}
		panic(unsupported{op + " of a non-integral EXACT-domain value"})
	}
	if i.cfg.AbstractConv {
		i.noteUF(op)
		return sym{i.st.UF("u"+op, SFP, s.t), types.Float64}
	}
	return i.mkSym(i.st.FP1(op, s.t), types.Float64)
}

func extMathSignbit(fr *frame, a []value) value {
	i := fr.i
	s, ok := a[0].(sym)
	if !ok {
		return math.Signbit(a[0].(float64))
	}
	if s.t.S.K == KReal {
		panic(unsupported{"Signbit of an EXACT-domain value"})
	}
	bitsV := i.float64bits(s)
	bt := i.bvTerm(bitsV)
	return i.mkSym(i.st.Eq(i.st.Extract(63, 63, bt), i.st.BVConst(1, 1)), types.Bool)
}

// ---------------------------------------------------------------- fmt

func renderArg(v value) string {
	if ifc, ok := v.(iface); ok {
		if ifc.t == nil {
			return "<nil>"
		}
		return renderArg(ifc.v)
	}
	switch v := v.(type) {
	case string:
		return v
	case sym:
		return "<sym>"
	case float64:
		return strconv.FormatFloat(v, 'g', -1, 64)
	}
	s := toString(v)
	if len(s) > 40 {
		s = s[:40] + "…"
	}
	return s
}

func sprintfModel(format string, args []value) string {
	var sb strings.Builder
	k := 0
	for p := 0; p < len(format); p++ {
		c := format[p]
		if c != '%' {
			sb.WriteByte(c)
			continue
		}
		p++
		for p < len(format) && strings.IndexByte("+-# 0123456789.*[]", format[p]) >= 0 {
			p++
		}
		if p >= len(format) {
			break
		}
		if format[p] == '%' {
			sb.WriteByte('%')
			continue
		}
		if k < len(args) {
			sb.WriteString(renderArg(args[k]))
			k++
		} else {
			sb.WriteString("%!" + string(format[p]) + "(MISSING)")
		}
	}
	return sb.String()
}

func extFmtSprintf(fr *frame, a []value) value {
	fr.i.noteStub("fmt.Sprintf")
	return sprintfModel(a[0].(string), a[1].([]value))
}

func extFmtSprint(fr *frame, a []value) value {
	fr.i.noteStub("fmt.Sprint")
	var sb strings.Builder
	for k, x := range a[0].([]value) {
		if k > 0 {
			sb.WriteByte(' ')
		}
		sb.WriteString(renderArg(x))
	}
	return sb.String()
}

// wrapIndex finds the operand index of the first %w verb.
func wrapIndex(format string) int {
	k := 0
	for p := 0; p < len(format); p++ {
		if format[p] != '%' {
			continue
		}
		p++
		for p < len(format) && strings.IndexByte("+-# 0123456789.*[]", format[p]) >= 0 {
			p++
		}
		if p >= len(format) {
			break
		}
		if format[p] == '%' {
			continue
		}
		if format[p] == 'w' {
			return k
		}
		k++
	}
	return -1
}

func extFmtErrorf(fr *frame, a []value) value {
	i := fr.i
	i.noteStub("fmt.Errorf")
	format := a[0].(string)
	args := a[1].([]value)
	msg := sprintfModel(format, args)
	fmtPkg := i.prog.ImportedPackage("fmt")
	errPkg := i.prog.ImportedPackage("errors")
	if w := wrapIndex(format); w >= 0 && w < len(args) && fmtPkg != nil {
		if inner, ok := args[w].(iface); ok && inner.t != nil {
			if we := fmtPkg.Type("wrapError"); we != nil {
				var cell value = structure{msg, inner}
				return iface{t: types.NewPointer(we.Type()), v: &cell}
			}
		}
	}
	if errPkg != nil {
		if es := errPkg.Type("errorString"); es != nil {
			var cell value = structure{msg}
			return iface{t: types.NewPointer(es.Type()), v: &cell}
		}
	}
	panic(unsupported{"fmt.Errorf: errors.errorString not loaded"})
}

// ---------------------------------------------------------------- errors.Is

func extErrorsIs(fr *frame, a []value) value {
	i := fr.i
	err, target := a[0].(iface), a[1].(iface)
	if err.t == nil || target.t == nil {
		return err.t == nil && target.t == nil
	}
	comparable := types.Comparable(target.t)
	errPkg := i.prog.ImportedPackage("errors")
	isFn := errPkg.Func("is")
	if isFn == nil {
		panic(unsupported{"errors.is not found"})
	}
	return call(i, fr.caller, 0, isFn, []value{err, target, comparable})
}

// ---------------------------------------------------------------- sort.Slice

func sortSliceCommon(fr *frame, a []value, stable bool) value {
	i := fr.i
	x := a[0].(iface)
	less := a[1]
	sl, ok := x.v.([]value)
	if !ok {
		panic(unsupported{fmt.Sprintf("sort.Slice of %T", x.v)})
	}
	n := len(sl)
	swap := &nativeFunc{name: "sort.Slice.swap", fn: func(fr *frame, args []value) value {
		p, q := int(asInt64(args[0])), int(asInt64(args[1]))
		if i.frozen != nil {
			i.checkWrite(&sl[p])
			i.checkWrite(&sl[q])
		}
		sl[p], sl[q] = sl[q], sl[p]
		return nil
	}}
	sortPkg := i.prog.ImportedPackage("sort")
	ls := structure{less, swap}
	if stable {
		f := sortPkg.Func("stable_func")
		call(i, fr.caller, 0, f, []value{ls, n})
		return nil
	}
	f := sortPkg.Func("pdqsort_func")
	limit := bits.Len(uint(n))
	call(i, fr.caller, 0, f, []value{ls, 0, n, limit})
	return nil
}

func extSortSlice(fr *frame, a []value) value       { return sortSliceCommon(fr, a, false) }
func extSortSliceStable(fr *frame, a []value) value { return sortSliceCommon(fr, a, true) }

// ---------------------------------------------------------------- strings.Builder

func extStringsBuilderString(fr *frame, a []value) value {
	p := a[0].(*value)
	st := (*p).(structure)
	// type Builder struct { addr *Builder; buf []byte }
	buf, _ := st[1].([]value)
	b := make([]byte, len(buf))
	for k := range buf {
		if isSym(buf[k]) {
			b[k] = byte(fr.i.concretize(buf[k], "strings.Builder content"))
			continue
		}
		b[k] = buf[k].(byte)
	}
	return string(b)
}

var _ = bytes.Equal
var _ *ssa.Function

// reflectlite is only touched by errors.init (errorType, used by errors.As):
// a dummy type value keeps the initialiser running.
func extReflectliteDummyType(fr *frame, a []value) value {
	rl := fr.i.prog.ImportedPackage("internal/reflectlite")
	if rl == nil || rl.Type("rtype") == nil {
		panic(unsupported{"internal/reflectlite.rtype not loaded"})
	}
	return iface{t: types.NewPointer(rl.Type("rtype").Type()), v: (*value)(nil)}
}

// math.Pow10 of a symbolic exponent: a table (ite chain) when the exponent is
// provably within [-16,16], else concretised.
func extMathPow10(fr *frame, a []value) value {
	i := fr.i
	s, ok := a[0].(sym)
	if !ok {
		return math.Pow10(int(asInt64(a[0])))
	}
	st := i.st
	w := s.t.S.W
	lim := 16
	out := st.Or(st.BVCmp("bvslt", s.t, st.BVConst(uint64(-int64(lim)), w)), st.BVCmp("bvslt", st.BVConst(uint64(lim), w), s.t))
	if r, _ := i.checkSat(out); r != Unsat {
		return math.Pow10(int(i.concretize(a[0], "math.Pow10 exponent")))
	}
	i.addFact(st.Not(out))
	t := st.FPConst(math.Pow10(lim))
	for e := lim - 1; e >= -lim; e-- {
		t = st.Ite(st.Eq(s.t, st.BVConst(uint64(int64(e)), w)), st.FPConst(math.Pow10(e)), t)
	}
	return i.mkSym(t, types.Float64)
}

// runBody is returned by an external that wants the real SSA body to run.
type runBody struct{}

const floatTokenBase = 9000000

// Formatting / parsing of symbolic floats (DESIGN section 6): the i-th
// formatted symbolic float becomes the decimal token 9000000+i; ParseFloat of
// such a token returns the recorded term. Everything about numerals (sign,
// shortest round trip, exponent forms) is therefore outside what is decided.
func (i *interpreter) floatToken(v sym) string {
	ps := i.ps
	for k, t := range ps.floatTokens {
		if t == v.t {
			return strconv.Itoa(floatTokenBase + k)
		}
	}
	ps.floatTokens = append(ps.floatTokens, v.t)
	i.noteStub("strconv float formatting (token)")
	return strconv.Itoa(floatTokenBase + len(ps.floatTokens) - 1)
}

func extStrconvAppendFloat(fr *frame, a []value) value {
	v, ok := a[1].(sym)
	if !ok || fr.i.ps == nil {
		return runBody{}
	}
	tok := fr.i.floatToken(v)
	dst := a[0].([]value)
	for k := 0; k < len(tok); k++ {
		dst = append(dst, tok[k])
	}
	return dst
}

func extStrconvFormatFloat(fr *frame, a []value) value {
	v, ok := a[0].(sym)
	if !ok || fr.i.ps == nil {
		return runBody{}
	}
	return fr.i.floatToken(v)
}

func extStrconvParseFloat(fr *frame, a []value) value {
	i := fr.i
	if ss, isSym := a[0].(symstr); isSym && i.ps != nil {
		// a numeral with symbolic bytes (already classified by the lexer): the
		// remaining freedom of each byte is enumerated by value picks and the real
		// strconv code runs on each concrete spelling
		bs := make([]byte, len(ss))
		for k, b := range ss {
			bs[k] = byte(i.concretize(b, "byte of a numeral passed to strconv.ParseFloat"))
		}
		a[0] = string(bs)
		i.noteStub("strconv.ParseFloat: symbolic bytes of the numeral enumerated")
	}
	s, ok := a[0].(string)
	if !ok {
		panic(unsupported{"strconv.ParseFloat of a symbolic string"})
	}
	if i.ps != nil && len(s) == 7 {
		if n, err := strconv.Atoi(s); err == nil && n >= floatTokenBase && n-floatTokenBase < len(i.ps.floatTokens) {
			i.noteStub("strconv float parsing (token)")
			return tuple{sym{i.ps.floatTokens[n-floatTokenBase], types.Float64}, iface{}}
		}
	}
	return runBody{}
}

// geom.ulpSize(f) = nextafter(f) - f is a bit-level function; for an
// exact-domain argument (non-negative, |f| < 2^12) it is modelled as the table
// of binades (an ite tree of constants). Concrete arguments run the real body.
func extGeomUlpSize(fr *frame, a []value) value {
	i := fr.i
	s, ok := a[0].(sym)
	if !ok || s.t.S.K != KReal {
		return runBody{}
	}
	st := i.st
	i.noteStub("geom.ulpSize (binade table for exact-domain values)")
	x := s.t
	if !x.RealExact() {
		panic(unsupported{"ulpSize of an inexact value"})
	}
	z := st.RealOfFloat(0)
	if i.decide(st.RealCmp("<", x, z)) {
		panic(unsupported{"ulpSize of a negative exact-domain value"})
	}
	mk := func(f float64) *Term { return st.RealOfFloat(f) }
	// x >= 2^12 is outside the model
	if i.decide(st.RealCmp("<=", mk(4096), x)) {
		panic(unsupported{"ulpSize of an exact-domain value >= 2^12"})
	}
	t := mk(math.Ldexp(1, 11-52))
	for e := 10; e >= -6; e-- {
		t = st.Ite(st.RealCmp("<", x, mk(math.Ldexp(1, e+1))), mk(math.Ldexp(1, e-52)), t)
	}
	// below 2^-6 only zero occurs for lattice-derived values
	small := st.RealCmp("<", x, mk(math.Ldexp(1, -6)))
	if i.decide(small) {
		if i.decide(st.Eq(x, z)) {
			return i.mkSym(mk(5e-324), types.Float64)
		}
		panic(unsupported{"ulpSize of a tiny non-zero exact-domain value"})
	}
	return i.mkSym(t, types.Float64)
}
