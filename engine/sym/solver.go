package sym

// Solver processes: long-lived z3 / z3-new / cvc5 children fed SMT-LIB text.

import (
	"bufio"
	"fmt"
	"io"
	"math"
	"math/big"
	"os"
	"os/exec"
	"strconv"
	"strings"
	"sync/atomic"
	"time"
)

var errPrinted int64

func firstLineOf(s string) string {
	for _, l := range strings.Split(s, "\n") {
		if strings.Contains(l, "error") {
			if len(l) > 300 {
				l = l[:300]
			}
			return l
		}
	}
	return ""
}

type Result int

const (
	Unsat Result = iota
	Sat
	Unknown
)

func (r Result) String() string { return [...]string{"unsat", "sat", "unknown"}[r] }

type proc struct {
	name string
	argv []string
	cmd  *exec.Cmd
	in   io.WriteCloser
	out  *bufio.Reader
	dead bool
}

func startProc(name string, argv ...string) (*proc, error) {
	p := &proc{name: name, argv: argv}
	if err := p.start(); err != nil {
		return nil, err
	}
	return p, nil
}

func (p *proc) start() error {
	cmd := exec.Command(p.argv[0], p.argv[1:]...)
	in, err := cmd.StdinPipe()
	if err != nil {
		return err
	}
	out, err := cmd.StdoutPipe()
	if err != nil {
		return err
	}
	cmd.Stderr = cmd.Stdout
	if err := cmd.Start(); err != nil {
		return err
	}
	p.cmd, p.in, p.out, p.dead = cmd, in, bufio.NewReaderSize(out, 1<<16), false
	return nil
}

func (p *proc) kill() {
	if p.cmd != nil && p.cmd.Process != nil {
		p.cmd.Process.Kill()
		p.cmd.Wait()
	}
	p.dead = true
}

var marker = "<<vfdone>>"

// run sends text and returns everything printed up to the end marker.
// hardTimeout guards against a solver ignoring its own timeout.
func (p *proc) run(text string, hardTimeout time.Duration) (string, error) {
	if p.dead {
		if err := p.start(); err != nil {
			return "", err
		}
	}
	type res struct {
		s   string
		err error
	}
	ch := make(chan res, 1)
	go func() {
		if _, err := io.WriteString(p.in, text+"\n(echo \""+marker+"\")\n"); err != nil {
			ch <- res{"", err}
			return
		}
		var sb strings.Builder
		for {
			line, err := p.out.ReadString('\n')
			if strings.Contains(line, marker) {
				ch <- res{sb.String(), nil}
				return
			}
			sb.WriteString(line)
			if err != nil {
				ch <- res{sb.String(), err}
				return
			}
		}
	}()
	select {
	case r := <-ch:
		if r.err != nil {
			p.kill()
		}
		return r.s, r.err
	case <-time.After(hardTimeout):
		p.kill()
		return "", fmt.Errorf("%s: hard timeout", p.name)
	}
}

// SolverStats is shared between workers (atomic counters).
type SolverStats struct {
	Queries   int64
	Sat       int64
	Unsat     int64
	Unknown   int64
	NanosZ3   int64
	NanosCVC5 int64
	NanosZ3N  int64
	ModelHits int64 // branch sides decided by evaluating the cached model
	Syntactic int64
	Errors    int64
}

type Solver struct {
	z3, z3new, cvc5 *proc
	Stats           *SolverStats
	TimeoutMS       int
	LogFile         io.Writer
	// IntLattice: lattice inputs are declared Int in every query (no real
	// relaxation). Needed where the code under test distinguishes integers
	// from nearby reals (the overlay's node set).
	IntLattice bool
}

func NewSolver(stats *SolverStats) *Solver {
	return &Solver{Stats: stats, TimeoutMS: 10000}
}

func (s *Solver) Close() {
	for _, p := range []*proc{s.z3, s.z3new, s.cvc5} {
		if p != nil {
			p.kill()
		}
	}
}

func (s *Solver) getZ3() (*proc, error) {
	if s.z3 == nil {
		p, err := startProc("z3", "/usr/bin/z3", "-in")
		if err != nil {
			return nil, err
		}
		s.z3 = p
	}
	return s.z3, nil
}

func (s *Solver) getZ3New() (*proc, error) {
	if s.z3new == nil {
		p, err := startProc("z3-new", "z3-new", "-in")
		if err != nil {
			return nil, err
		}
		s.z3new = p
	}
	return s.z3new, nil
}

func (s *Solver) getCVC5() (*proc, error) {
	if s.cvc5 == nil {
		p, err := startProc("cvc5", "/usr/bin/cvc5", "--incremental", "--lang", "smt2", "--produce-models", "--fp-exp")
		if err != nil {
			return nil, err
		}
		s.cvc5 = p
	}
	return s.cvc5, nil
}

func parseStatus(out string) (Result, bool) {
	if strings.Contains(out, "(error") {
		return Unknown, true
	}
	for _, l := range strings.Split(out, "\n") {
		switch strings.TrimSpace(l) {
		case "sat":
			return Sat, false
		case "unsat":
			return Unsat, false
		case "unknown", "timeout":
			return Unknown, false
		}
	}
	return Unknown, false
}

// Check decides satisfiability of the conjunction. If wantModel and the
// result is Sat, the model of the script's variables is returned (nil if it
// could not be parsed).
func (s *Solver) Check(asserts []*Term, wantModel bool, intVars bool) (Result, Model) {
	if s.IntLattice {
		intVars = true
	}
	sc := BuildScript(asserts, intVars)
	atomic.AddInt64(&s.Stats.Queries, 1)
	r, m := s.checkScript(sc, wantModel, intVars)
	switch r {
	case Sat:
		atomic.AddInt64(&s.Stats.Sat, 1)
	case Unsat:
		atomic.AddInt64(&s.Stats.Unsat, 1)
	default:
		atomic.AddInt64(&s.Stats.Unknown, 1)
	}
	return r, m
}

func getValueCmd(sc *Script) string {
	if len(sc.Vars)+len(sc.UFVars) == 0 {
		return ""
	}
	var sb strings.Builder
	sb.WriteString("(get-value (")
	for _, v := range sc.Vars {
		sb.WriteString(smtName(v.Name))
		sb.WriteByte(' ')
	}
	for _, v := range sc.UFVars {
		sb.WriteString(smtName(v.ufVarName()))
		sb.WriteByte(' ')
	}
	sb.WriteString("))\n")
	return sb.String()
}

func (s *Solver) checkScript(sc *Script, wantModel, intVars bool) (Result, Model) {
	nonlinReal := sc.HasReal && sc.NonLin
	type attempt struct {
		solver string
		ms     int
		tactic string
	}
	var plan []attempt
	if nonlinReal && !intVars {
		plan = []attempt{
			{"z3", 1500, ""},
			{"z3", 5000, "(check-sat-using (then simplify qfnra-nlsat))"},
			{"cvc5", 10000, ""},
			{"z3-new", 30000, ""},
			{"z3", 20000, ""},
		}
	} else if intVars {
		plan = []attempt{{"z3-new", 20000, ""}, {"z3", 10000, ""}, {"cvc5", 10000, ""}}
	} else if sc.HasReal {
		plan = []attempt{{"z3", s.TimeoutMS, ""}, {"cvc5", s.TimeoutMS, ""}}
	} else {
		plan = []attempt{{"z3-new", s.TimeoutMS, ""}, {"z3", s.TimeoutMS, ""}, {"cvc5", s.TimeoutMS, ""}}
	}
	for _, a := range plan {
		r, m, errd := s.runOne(a.solver, sc, a.ms, a.tactic, wantModel)
		if errd {
			atomic.AddInt64(&s.Stats.Errors, 1)
			continue
		}
		if r != Unknown {
			return r, m
		}
	}
	return Unknown, nil
}

func (s *Solver) runOne(which string, sc *Script, ms int, tactic string, wantModel bool) (Result, Model, bool) {
	var p *proc
	var err error
	var text strings.Builder
	t0 := time.Now()
	switch which {
	case "z3":
		p, err = s.getZ3()
		fmt.Fprintf(&text, "(reset)\n(set-option :timeout %d)\n(set-option :pp.decimal false)\n", ms)
	case "z3-new":
		p, err = s.getZ3New()
		fmt.Fprintf(&text, "(reset)\n(set-option :timeout %d)\n(set-option :pp.decimal false)\n", ms)
	case "cvc5":
		p, err = s.getCVC5()
		fmt.Fprintf(&text, "(reset)\n(set-option :tlimit-per %d)\n(set-logic ALL)\n", ms)
	}
	if err != nil {
		return Unknown, nil, true
	}
	text.WriteString(sc.Text)
	if tactic != "" {
		text.WriteString(tactic + "\n")
	} else {
		text.WriteString("(check-sat)\n")
	}
	if s.LogFile != nil {
		fmt.Fprintf(s.LogFile, "; ---- %s\n%s", which, text.String())
	}
	out, err := p.run(text.String(), time.Duration(ms)*time.Millisecond*2+5*time.Second)
	defer func() {
		d := int64(time.Since(t0))
		switch which {
		case "z3":
			atomic.AddInt64(&s.Stats.NanosZ3, d)
		case "z3-new":
			atomic.AddInt64(&s.Stats.NanosZ3N, d)
		case "cvc5":
			atomic.AddInt64(&s.Stats.NanosCVC5, d)
		}
	}()
	if err != nil {
		return Unknown, nil, true
	}
	r, errd := parseStatus(out)
	if errd && atomic.AddInt64(&errPrinted, 1) <= 3 {
		fmt.Fprintf(os.Stderr, "solver error (%s): %s\n", which, firstLineOf(out))
	}
	if s.LogFile != nil {
		fmt.Fprintf(s.LogFile, "; => %s %q\n", r, strings.TrimSpace(out))
	}
	if errd {
		return Unknown, nil, true
	}
	if r == Sat && wantModel {
		gv := getValueCmd(sc)
		if gv == "" {
			return r, Model{}, false
		}
		mout, err := p.run(gv, 20*time.Second)
		if err != nil || strings.Contains(mout, "(error") {
			return r, nil, false
		}
		m := parseModel(mout, sc)
		return r, m, false
	}
	return r, nil, false
}

// ---------------------------------------------------------------- s-expressions

type sexp struct {
	atom string
	list []*sexp
	isL  bool
}

func parseSexp(s string) []*sexp {
	var stack [][]*sexp
	cur := []*sexp{}
	i := 0
	for i < len(s) {
		c := s[i]
		switch {
		case c == '(':
			stack = append(stack, cur)
			cur = []*sexp{}
			i++
		case c == ')':
			l := &sexp{list: cur, isL: true}
			if len(stack) == 0 {
				return cur
			}
			cur = stack[len(stack)-1]
			stack = stack[:len(stack)-1]
			cur = append(cur, l)
			i++
		case c == ' ' || c == '\n' || c == '\t' || c == '\r':
			i++
		case c == '|':
			j := strings.IndexByte(s[i+1:], '|')
			if j < 0 {
				return cur
			}
			cur = append(cur, &sexp{atom: s[i+1 : i+1+j]})
			i += j + 2
		case c == '"':
			j := strings.IndexByte(s[i+1:], '"')
			if j < 0 {
				return cur
			}
			cur = append(cur, &sexp{atom: s[i : i+j+2]})
			i += j + 2
		default:
			j := i
			for j < len(s) && !strings.ContainsRune("() \n\t\r", rune(s[j])) {
				j++
			}
			cur = append(cur, &sexp{atom: s[i:j]})
			i = j
		}
	}
	return cur
}

func parseModel(out string, sc *Script) Model {
	top := parseSexp(out)
	m := Model{}
	sorts := map[string]*Term{}
	for _, v := range sc.Vars {
		sorts[v.Name] = v
	}
	for _, v := range sc.UFVars {
		sorts[v.ufVarName()] = v
	}
	var pairs []*sexp
	for _, t := range top {
		if t.isL {
			pairs = append(pairs, t.list...)
		}
	}
	for _, p := range pairs {
		if !p.isL || len(p.list) != 2 {
			continue
		}
		name := p.list[0].atom
		v, ok := sorts[name]
		if !ok {
			continue
		}
		val, ok := parseValue(p.list[1], v.S)
		if !ok {
			continue
		}
		m[name] = val
	}
	return m
}

func parseValue(e *sexp, so Sort) (Val, bool) {
	switch so.K {
	case KBool:
		if e.atom == "true" {
			return Val{B: true}, true
		}
		if e.atom == "false" {
			return Val{B: false}, true
		}
	case KBV:
		a := e.atom
		if strings.HasPrefix(a, "#x") {
			u, err := strconv.ParseUint(a[2:], 16, 64)
			return Val{U: u}, err == nil
		}
		if strings.HasPrefix(a, "#b") {
			u, err := strconv.ParseUint(a[2:], 2, 64)
			return Val{U: u}, err == nil
		}
		if e.isL && len(e.list) == 3 && e.list[0].atom == "_" && strings.HasPrefix(e.list[1].atom, "bv") {
			u, err := strconv.ParseUint(e.list[1].atom[2:], 10, 64)
			return Val{U: u}, err == nil
		}
	case KReal:
		r, ok := parseRat(e)
		if ok {
			return Val{R: r}, true
		}
	case KFP:
		return parseFP(e)
	}
	return Val{}, false
}

func parseFP(e *sexp) (Val, bool) {
	if !e.isL || len(e.list) == 0 {
		return Val{}, false
	}
	switch e.list[0].atom {
	case "fp":
		if len(e.list) != 4 {
			return Val{}, false
		}
		var bits uint64
		for _, part := range e.list[1:] {
			a := part.atom
			var u uint64
			var n int
			var err error
			switch {
			case strings.HasPrefix(a, "#b"):
				u, err = strconv.ParseUint(a[2:], 2, 64)
				n = len(a) - 2
			case strings.HasPrefix(a, "#x"):
				u, err = strconv.ParseUint(a[2:], 16, 64)
				n = 4 * (len(a) - 2)
			default:
				return Val{}, false
			}
			if err != nil {
				return Val{}, false
			}
			bits = bits<<uint(n) | u
		}
		return Val{F: math.Float64frombits(bits)}, true
	case "_":
		if len(e.list) < 2 {
			return Val{}, false
		}
		switch e.list[1].atom {
		case "NaN":
			return Val{F: math.NaN()}, true
		case "+oo":
			return Val{F: math.Inf(1)}, true
		case "-oo":
			return Val{F: math.Inf(-1)}, true
		case "+zero":
			return Val{F: 0}, true
		case "-zero":
			return Val{F: math.Copysign(0, -1)}, true
		}
	}
	return Val{}, false
}

func parseRat(e *sexp) (*big.Rat, bool) {
	if !e.isL {
		a := strings.TrimSuffix(e.atom, "?")
		r := new(big.Rat)
		if _, ok := r.SetString(a); ok {
			return r, true
		}
		return nil, false
	}
	if len(e.list) == 0 {
		return nil, false
	}
	switch e.list[0].atom {
	case "-":
		if len(e.list) == 2 {
			r, ok := parseRat(e.list[1])
			if !ok {
				return nil, false
			}
			return r.Neg(r), true
		}
		if len(e.list) == 3 {
			a, ok1 := parseRat(e.list[1])
			b, ok2 := parseRat(e.list[2])
			if ok1 && ok2 {
				return a.Sub(a, b), true
			}
		}
	case "/":
		if len(e.list) == 3 {
			a, ok1 := parseRat(e.list[1])
			b, ok2 := parseRat(e.list[2])
			if ok1 && ok2 && b.Sign() != 0 {
				return a.Quo(a, b), true
			}
		}
	case "to_real":
		if len(e.list) == 2 {
			return parseRat(e.list[1])
		}
	}
	return nil, false
}

var _ = math.Inf
