// Copyright 2013 The Go Authors. All rights reserved.
// Use of this source code is governed by a BSD-style
// license that can be found in the LICENSE file (LICENSE.xtools).
//
// Derived from golang.org/x/tools v0.29.0 go/ssa/interp. The interpreter
// executes the SSA of the real code; scalars may be symbolic (SMT terms), and
// control flow that depends on a symbolic condition forks the path.

package sym

import (
	"fmt"
	"go/token"
	"go/types"
	"os"
	"runtime"
	"slices"
	"strings"
	"unsafe"

	"golang.org/x/tools/go/ssa"
)

type continuation int

const (
	kNext continuation = iota
	kReturn
	kJump
)

type methodSet map[string]*ssa.Function

// Config bounds one harness run.
type Config struct {
	MaxPicks    int   // feasible values enumerated at one concretisation site
	Unwind      int   // iterations of one loop header per activation
	MaxSteps    int64 // instructions per path
	AllocBudget int64 // bytes a path may request through make/append (0 = unchecked)
	Merge       map[string]bool
	Tracing     bool
	// AbstractConv: float<->int conversions and Round/Floor/Ceil/Trunc are
	// uninterpreted functions (sound for unsat; used where the solver cannot
	// carry the FP conversions, e.g. the TWKB scaling pipeline).
	AbstractConv bool
	// IntLattice: see Solver.IntLattice.
	IntLattice bool
}

// State of one interpreter instance (one worker).
type interpreter struct {
	prog               *ssa.Program
	globals            map[*ssa.Global]*value
	runtimeErrorString types.Type
	sizes              types.Sizes
	st                 *Store
	solver             *Solver
	ps                 *pathState
	cfg                Config
	frozen             *frozenSet
	globalFrozen       *frozenSet
	elemOrigin         map[*value]*origin
	wantOrigin         map[*ssa.IndexAddr]bool
	funcsEntered       map[*ssa.Function]int
	stubs              map[string]value // callee name -> replacement callable
	initDone           bool
	depth              int
	curFrame           *frame
	mapOrder           func([]mapEntry) []mapEntry
	initFilter         func(*ssa.Package) bool
}

type deferred struct {
	fn    value
	args  []value
	instr *ssa.Defer
	tail  *deferred
}

type frame struct {
	i                *interpreter
	caller           *frame
	fn               *ssa.Function
	block, prevBlock *ssa.BasicBlock
	env              map[ssa.Value]value // dynamic values of SSA variables
	locals           []value
	defers           *deferred
	result           value
	panicking        bool
	panic            interface{}
	phitemps         []value // temporaries for parallel phi assignment
	loopCnt          map[*ssa.BasicBlock]int
}

func (fr *frame) get(key ssa.Value) value {
	switch key := key.(type) {
	case nil:
		// Hack; simplifies handling of optional attributes
		// such as ssa.Slice.{Low,High}.
		return nil
	case *ssa.Function, *ssa.Builtin:
		return key
	case *ssa.Const:
		return constValue(key)
	case *ssa.Global:
		if r, ok := fr.i.globals[key]; ok {
			return r
		}
		// a global of a package whose init was not run
		panic(unsupported{"read of global of uninitialised package: " + key.String()})
	}
	if r, ok := fr.env[key]; ok {
		return r
	}
	panic(fmt.Sprintf("get: no value for %T: %v", key, key.Name()))
}

// runDefer runs a deferred call d.
// It always returns normally, but may set or clear fr.panic.
func (fr *frame) runDefer(d *deferred) {
	var ok bool
	defer func() {
		if !ok {
			// Deferred call created a new state of panic.
			r := recover()
			if ab, isAb := r.(engineAbort); isAb {
				panic(ab)
			}
			fr.panicking = true
			fr.panic = r
		}
	}()
	call(fr.i, fr, d.instr.Pos(), d.fn, d.args)
	ok = true
}

// runDefers executes fr's deferred function calls in LIFO order.
func (fr *frame) runDefers() {
	for d := fr.defers; d != nil; d = d.tail {
		fr.runDefer(d)
	}
	fr.defers = nil
	if fr.panicking {
		panic(fr.panic) // new panic, or still panicking
	}
}

func lookupMethod(i *interpreter, typ types.Type, meth *types.Func) *ssa.Function {
	return i.prog.LookupMethod(typ, meth.Pkg(), meth.Name())
}

func mustDeref(t types.Type) types.Type {
	if p, ok := t.Underlying().(*types.Pointer); ok {
		return p.Elem()
	}
	panic(fmt.Sprintf("mustDeref: %s is not a pointer", t))
}

func (i *interpreter) nilDeref() {
	i.rtPanic("runtime error: invalid memory address or nil pointer dereference")
}

// indexCheck concretises idx and checks 0 <= idx < n.
func (i *interpreter) indexCheck(idx value, n int, what string) int {
	if s, ok := idx.(sym); ok {
		st := i.st
		// fork on out-of-range first so that the in-range values are enumerable
		w := s.t.S.W
		var oob *Term
		// n may not be representable at the index's width (uint8 index into a
		// [256]T array): then no value of that width is >= n
		fits := w >= 64 || uint64(n) < uint64(1)<<uint(w)
		if kindSigned(s.k) {
			fits = w >= 64 || uint64(n) < uint64(1)<<uint(w-1)
			oob = st.BVCmp("bvslt", s.t, st.BVConst(0, w))
			if fits {
				oob = st.Or(oob, st.BVCmp("bvsle", st.BVConst(uint64(n), w), s.t))
			}
		} else if fits {
			oob = st.BVCmp("bvule", st.BVConst(uint64(n), w), s.t)
		} else {
			oob = st.False
		}
		if i.decide(oob) {
			i.rtPanic(fmt.Sprintf("runtime error: index out of range [symbolic] with length %d (%s) idx=%s", n, i.where(), s.t.String()))
		}
	}
	k := i.concretize(idx, what)
	if k < 0 || k >= int64(n) {
		i.rtPanic(fmt.Sprintf("runtime error: index out of range [%d] with length %d", k, n))
	}
	return int(k)
}

// visitInstr interprets a single ssa.Instruction within the activation
// record frame.  It returns a continuation value indicating where to
// read the next instruction from.
func visitInstr(fr *frame, instr ssa.Instruction) continuation {
	i := fr.i
	switch instr := instr.(type) {
	case *ssa.DebugRef:
		// no-op

	case *ssa.UnOp:
		fr.env[instr] = i.unop(instr, fr.get(instr.X))

	case *ssa.BinOp:
		fr.env[instr] = i.binop(instr.Op, instr.X.Type(), fr.get(instr.X), fr.get(instr.Y))

	case *ssa.Call:
		fn, args := prepareCall(fr, &instr.Call)
		fr.env[instr] = call(fr.i, fr, instr.Pos(), fn, args)

	case *ssa.ChangeInterface:
		fr.env[instr] = fr.get(instr.X)

	case *ssa.ChangeType:
		fr.env[instr] = fr.get(instr.X) // (can't fail)

	case *ssa.Convert:
		fr.env[instr] = i.conv(instr.Type(), instr.X.Type(), fr.get(instr.X))

	case *ssa.SliceToArrayPointer:
		fr.env[instr] = i.sliceToArrayPointer(instr.Type(), instr.X.Type(), fr.get(instr.X))

	case *ssa.MakeInterface:
		fr.env[instr] = iface{t: instr.X.Type(), v: fr.get(instr.X)}

	case *ssa.Extract:
		fr.env[instr] = fr.get(instr.Tuple).(tuple)[instr.Index]

	case *ssa.Slice:
		fr.env[instr] = i.slice(fr.get(instr.X), fr.get(instr.Low), fr.get(instr.High), fr.get(instr.Max))

	case *ssa.Return:
		switch len(instr.Results) {
		case 0:
		case 1:
			fr.result = fr.get(instr.Results[0])
		default:
			var res []value
			for _, r := range instr.Results {
				res = append(res, fr.get(r))
			}
			fr.result = tuple(res)
		}
		fr.block = nil
		return kReturn

	case *ssa.RunDefers:
		fr.runDefers()

	case *ssa.Panic:
		panic(targetPanic{fr.get(instr.X)})

	case *ssa.Send:
		panic(unsupported{"channel send"})

	case *ssa.Store:
		addr := fr.get(instr.Addr)
		switch a := addr.(type) {
		case *value:
			if a == nil {
				i.nilDeref()
			}
			i.store(mustDeref(instr.Addr.Type()), a, fr.get(instr.Val))
		case viewptr:
			i.viewStore(a, fr.get(instr.Val))
		default:
			panic(fmt.Sprintf("store through %T", addr))
		}

	case *ssa.If:
		succ := 1
		if i.truth(fr.get(instr.Cond)) {
			succ = 0
		}
		fr.jump(fr.block.Succs[succ])
		return kJump

	case *ssa.Jump:
		fr.jump(fr.block.Succs[0])
		return kJump

	case *ssa.Defer:
		fn, args := prepareCall(fr, &instr.Call)
		defers := &fr.defers
		if into := fr.get(instr.DeferStack); into != nil {
			defers = into.(**deferred)
		}
		*defers = &deferred{
			fn:    fn,
			args:  args,
			instr: instr,
			tail:  *defers,
		}

	case *ssa.Go:
		panic(unsupported{"go statement"})

	case *ssa.MakeChan:
		panic(unsupported{"make(chan)"})

	case *ssa.Alloc:
		var addr *value
		if instr.Heap {
			// new
			addr = new(value)
			fr.env[instr] = addr
		} else {
			// local
			addr = fr.env[instr].(*value)
		}
		*addr = zero(mustDeref(instr.Type()))

	case *ssa.MakeSlice:
		tElt := instr.Type().Underlying().(*types.Slice).Elem()
		n, c := i.makeSliceSize(fr.get(instr.Len), fr.get(instr.Cap), tElt, instr)
		slice := make([]value, c)
		for k := range slice {
			slice[k] = zero(tElt)
		}
		fr.env[instr] = slice[:n]

	case *ssa.MakeMap:
		if instr.Reserve != nil {
			i.concretize(fr.get(instr.Reserve), "make(map) size hint")
		}
		fr.env[instr] = makeMap(instr.Type().Underlying().(*types.Map).Key())

	case *ssa.Range:
		fr.env[instr] = i.rangeIter(fr.get(instr.X), instr.X.Type())

	case *ssa.Next:
		fr.env[instr] = fr.get(instr.Iter).(iter).next()

	case *ssa.FieldAddr:
		p := fr.get(instr.X).(*value)
		if p == nil {
			i.nilDeref()
		}
		fr.env[instr] = &(*p).(structure)[instr.Field]

	case *ssa.Field:
		fr.env[instr] = fr.get(instr.X).(structure)[instr.Field]

	case *ssa.IndexAddr:
		x := fr.get(instr.X)
		idx := fr.get(instr.Index)
		switch x := x.(type) {
		case []value:
			k := i.indexCheck(idx, len(x), "slice index")
			p := &x[k]
			fr.env[instr] = p
			if i.needOrigin(instr) {
				i.elemOrigin[p] = &origin{backing: x[k:], elem: instr.X.Type().Underlying().(*types.Slice).Elem()}
			}
		case *value: // *array
			if x == nil {
				i.nilDeref()
			}
			a := (*x).(array)
			k := i.indexCheck(idx, len(a), "array index")
			p := &a[k]
			fr.env[instr] = p
			if i.needOrigin(instr) {
				i.elemOrigin[p] = &origin{backing: []value(a)[k:], elem: mustDeref(instr.X.Type()).Underlying().(*types.Array).Elem()}
			}
		default:
			panic(fmt.Sprintf("unexpected x type in IndexAddr: %T", x))
		}

	case *ssa.Index:
		x := fr.get(instr.X)
		idx := fr.get(instr.Index)

		switch x := x.(type) {
		case array:
			fr.env[instr] = copyVal(x[i.indexCheck(idx, len(x), "array index")])
		case string:
			fr.env[instr] = x[i.indexCheck(idx, len(x), "string index")]
		case symstr:
			fr.env[instr] = x[i.indexCheck(idx, len(x), "string index")]
		default:
			panic(fmt.Sprintf("unexpected x type in Index: %T", x))
		}

	case *ssa.Lookup:
		fr.env[instr] = i.lookup(instr, fr.get(instr.X), fr.get(instr.Index))

	case *ssa.MapUpdate:
		m := fr.get(instr.Map)
		key := fr.get(instr.Key)
		v := fr.get(instr.Value)
		i.mapInsert(m.(*smap), key, v)

	case *ssa.TypeAssert:
		fr.env[instr] = typeAssert(fr.i, instr, fr.get(instr.X).(iface))

	case *ssa.MakeClosure:
		var bindings []value
		for _, binding := range instr.Bindings {
			bindings = append(bindings, fr.get(binding))
		}
		fr.env[instr] = &closure{instr.Fn.(*ssa.Function), bindings}

	case *ssa.Phi:
		panic("unreachable") // phis are processed at block entry

	case *ssa.Select:
		panic(unsupported{"select"})

	default:
		panic(fmt.Sprintf("unexpected instruction: %T", instr))
	}

	return kNext
}

// where names the innermost library function being executed.
func (i *interpreter) where() string {
	if i.curFrame != nil {
		return i.curFrame.fn.String()
	}
	return "?"
}

// chain renders the target call stack (innermost first).
func (fr *frame) chain() string {
	var parts []string
	for f := fr; f != nil && len(parts) < 12; f = f.caller {
		parts = append(parts, f.fn.String())
	}
	return strings.Join(parts, " <- ")
}

func (fr *frame) jump(to *ssa.BasicBlock) {
	i := fr.i
	if i.ps != nil && to.Index <= fr.block.Index {
		if fr.loopCnt == nil {
			fr.loopCnt = map[*ssa.BasicBlock]int{}
		}
		fr.loopCnt[to]++
		if fr.loopCnt[to] > i.cfg.Unwind {
			i.abort("unwind", fmt.Sprintf("loop at %s iterated more than %d times", i.prog.Fset.Position(fr.fn.Pos()), i.cfg.Unwind))
		}
	}
	fr.prevBlock, fr.block = fr.block, to
}

func (i *interpreter) needOrigin(instr *ssa.IndexAddr) bool {
	w, ok := i.wantOrigin[instr]
	if ok {
		return w
	}
	w = false
	if refs := instr.Referrers(); refs != nil {
		for _, r := range *refs {
			if c, ok := r.(*ssa.Convert); ok {
				if b, ok := c.Type().Underlying().(*types.Basic); ok && b.Kind() == types.UnsafePointer {
					w = true
				}
			}
		}
	}
	i.wantOrigin[instr] = w
	return w
}

// makeSliceSize concretises len/cap of a make([]T, len, cap), raising the Go
// panics and accounting the allocation.
func (i *interpreter) makeSliceSize(lenV, capV value, tElt types.Type, instr *ssa.MakeSlice) (int, int) {
	esz := i.sizes.Sizeof(tElt)
	if esz == 0 {
		esz = 1
	}
	st := i.st
	sameLC := instr.Len == instr.Cap
	check := func(v value, what string) {
		s, ok := v.(sym)
		if !ok {
			return
		}
		// compare in 64 bits (the runtime converts the operand to int)
		var t *Term
		if kindSigned(s.k) {
			t = st.SExt(s.t, 64)
		} else {
			t = st.ZExt(s.t, 64)
		}
		// negative or beyond maxAlloc (2^48 on linux/amd64): panics in the real runtime
		lim := uint64(1<<48) / uint64(esz)
		bad := st.Or(st.BVCmp("bvslt", t, st.BVConst(0, 64)), st.BVCmp("bvslt", st.BVConst(lim, 64), t))
		if i.decide(bad) {
			i.rtPanic("runtime error: makeslice: " + what + " out of range")
		}
		// allocation out of proportion?
		if i.cfg.AllocBudget > 0 && i.ps != nil {
			remain := i.cfg.AllocBudget - i.ps.allocated
			if remain < 0 {
				remain = 0
			}
			over := st.BVCmp("bvslt", st.BVConst(uint64(remain)/uint64(esz), 64), t)
			if i.decide(over) {
				i.abort("alloc", fmt.Sprintf("make([]%s, n) with n*%d bytes beyond the allocation budget (%d bytes) at %s",
					types.TypeString(tElt, func(p *types.Package) string { return p.Name() }), esz, i.cfg.AllocBudget, i.prog.Fset.Position(instr.Pos())))
			}
		}
	}
	check(capV, "cap")
	if !sameLC {
		check(lenV, "len")
	}
	c := i.concretize(capV, "make cap")
	n := c
	if !sameLC {
		n = i.concretize(lenV, "make len")
	}
	if n < 0 || n > (1<<48)/esz {
		i.rtPanic("runtime error: makeslice: len out of range")
	}
	if c < n || c > (1<<48)/esz {
		i.rtPanic("runtime error: makeslice: cap out of range")
	}
	i.account(c*esz, instr.Pos())
	if c > 1<<24 {
		i.abort("alloc", fmt.Sprintf("make of %d elements at %s", c, i.prog.Fset.Position(instr.Pos())))
	}
	return int(n), int(c)
}

// account records bytes requested by the target program.
func (i *interpreter) account(bytes int64, pos token.Pos) {
	if i.ps == nil {
		return
	}
	i.ps.allocated += bytes
	if i.cfg.AllocBudget > 0 && i.ps.allocated > i.cfg.AllocBudget {
		i.abort("alloc", fmt.Sprintf("path allocated %d bytes, budget %d, at %s", i.ps.allocated, i.cfg.AllocBudget, i.prog.Fset.Position(pos)))
	}
	if bytes > 1<<30 {
		i.abort("alloc", fmt.Sprintf("single allocation of %d bytes at %s", bytes, i.prog.Fset.Position(pos)))
	}
}

// prepareCall determines the function value and argument values for a
// function call in a Call, Go or Defer instruction, performing
// interface method lookup if needed.
func prepareCall(fr *frame, call *ssa.CallCommon) (fn value, args []value) {
	v := fr.get(call.Value)
	if call.Method == nil {
		// Function call.
		fn = v
	} else {
		// Interface method invocation.
		recv := v.(iface)
		if recv.t == nil {
			fr.i.nilDeref()
		}
		if f := lookupMethod(fr.i, recv.t, call.Method); f == nil {
			// Unreachable in well-typed programs.
			panic(fmt.Sprintf("method set for dynamic type %v does not contain %s", recv.t, call.Method))
		} else {
			fn = f
		}
		args = append(args, recv.v)
	}
	for _, arg := range call.Args {
		args = append(args, copyVal(fr.get(arg)))
	}
	return
}

// call interprets a call to a function (function, builtin or closure)
// fn with arguments args, returning its result.
// callpos is the position of the callsite.
func call(i *interpreter, caller *frame, callpos token.Pos, fn value, args []value) value {
	switch fn := fn.(type) {
	case *ssa.Function:
		if fn == nil {
			i.nilDeref()
		}
		return callSSA(i, caller, callpos, fn, args, nil)
	case *closure:
		return callSSA(i, caller, callpos, fn.Fn, args, fn.Env)
	case *ssa.Builtin:
		return callBuiltin(caller, callpos, fn, args)
	case *nativeFunc:
		return fn.fn(caller, args)
	}
	panic(fmt.Sprintf("cannot call %T", fn))
}

func loc(fset *token.FileSet, pos token.Pos) string {
	if pos == token.NoPos {
		return ""
	}
	return " at " + fset.Position(pos).String()
}

const maxDepth = 400

// callSSA interprets a call to function fn with arguments args,
// and lexical environment env, returning its result.
// callpos is the position of the callsite.
func callSSA(i *interpreter, caller *frame, callpos token.Pos, fn *ssa.Function, args []value, env []value) value {
	if i.cfg.Tracing {
		fset := fn.Prog.Fset
		fmt.Fprintf(os.Stderr, "%*sEntering %s%s.\n", i.depth, "", fn, loc(fset, fn.Pos()))
	}
	fr := &frame{
		i:      i,
		caller: caller, // for panic/recover
		fn:     fn,
	}
	if fn.Parent() == nil {
		name := fn.String()
		if fn.Synthetic == "package initializer" && i.initFilter != nil && fn.Pkg != nil && !i.initFilter(fn.Pkg) {
			return nil
		}
		if i.stubs != nil {
			if st, ok := i.stubs[name]; ok {
				i.noteStub(name)
				return call(i, caller, callpos, st, args)
			}
		}
		if ext := externals[name]; ext != nil {
			r := ext(fr, args)
			if _, again := r.(runBody); !again {
				return r
			}
		}
		if fn.Pkg != nil && strings.HasPrefix(fn.Name(), "vf") {
			if in := intrinsics[fn.Name()]; in != nil {
				return in(fr, args)
			}
			switch fn.Name() {
			case "vfAnd", "vfOr", "vfB2I":
				if i.ps != nil {
					return i.callMerged(func() value { return runSSA(i, fr, fn, args, env) })
				}
			}
		}
		if fn.Blocks == nil {
			panic(unsupported{"no code for function: " + name})
		}
		if i.ps != nil && i.cfg.Merge[name] {
			return i.callMerged(func() value { return runSSA(i, fr, fn, args, env) })
		}
	}
	return runSSA(i, fr, fn, args, env)
}

func runSSA(i *interpreter, fr0 *frame, fn *ssa.Function, args []value, env []value) value {
	// a fresh frame per run (merged calls run the body several times)
	fr := &frame{i: i, caller: fr0.caller, fn: fn}
	if fn.TypeParams().Len() > 0 && len(fn.TypeArgs()) == 0 {
		panic("interp requires ssa.BuilderMode to include InstantiateGenerics to execute generics")
	}
	i.funcsEntered[fn]++
	i.depth++
	if i.depth > maxDepth {
		i.abort("unwind", "call depth exceeds "+fmt.Sprint(maxDepth))
	}
	defer func() { i.depth-- }()

	prevFrame := i.curFrame
	i.curFrame = fr
	defer func() { i.curFrame = prevFrame }()
	fr.env = make(map[ssa.Value]value)
	fr.block = fn.Blocks[0]
	fr.locals = make([]value, len(fn.Locals))
	for k, l := range fn.Locals {
		fr.locals[k] = zero(mustDeref(l.Type()))
		fr.env[l] = &fr.locals[k]
	}
	for k, p := range fn.Params {
		fr.env[p] = args[k]
	}
	for k, fv := range fn.FreeVars {
		fr.env[fv] = env[k]
	}
	for fr.block != nil {
		runFrame(fr)
	}
	return fr.result
}

// runFrame executes SSA instructions starting at fr.block and
// continuing until a return, a panic, or a recovered panic.
func runFrame(fr *frame) {
	defer func() {
		if fr.block == nil {
			return // normal return
		}
		r := recover()
		switch r := r.(type) {
		case engineAbort:
			panic(r)
		case unsupported:
			panic(engineAbort{"unsupported", r.msg + " in " + fr.chain()})
		case targetPanic:
		case runtime.Error:
			// an engine bug or an unmodelled situation, not a target panic
			buf := make([]byte, 4096)
			buf = buf[:runtime.Stack(buf, false)]
			panic(engineAbort{"engine", fmt.Sprintf("%v in %s\n%s", r, fr.fn.String(), buf)})
		case string:
			panic(engineAbort{"engine", r + " in " + fr.fn.String()})
		default:
			panic(engineAbort{"engine", fmt.Sprintf("%v in %s", r, fr.fn.String())})
		}
		fr.panicking = true
		fr.panic = r
		fr.runDefers()
		fr.block = fr.fn.Recover
	}()

	i := fr.i
	for {
		nonPhis := executePhis(fr)
		for _, instr := range nonPhis {
			if i.cfg.Tracing {
				if v, ok := instr.(ssa.Value); ok {
					fmt.Fprintln(os.Stderr, "\t", v.Name(), "=", instr)
				} else {
					fmt.Fprintln(os.Stderr, "\t", instr)
				}
			}
			if i.ps != nil {
				i.ps.steps++
				if i.ps.steps > i.cfg.MaxSteps {
					i.abort("unwind", fmt.Sprintf("more than %d instructions on one path", i.cfg.MaxSteps))
				}
			}
			if visitInstr(fr, instr) == kReturn {
				return
			}
			// Inv: kNext (continue) or kJump (last instr)
		}
	}
}

// executePhis executes the phi-nodes at the start of the current
// block and returns the non-phi instructions.
func executePhis(fr *frame) []ssa.Instruction {
	firstNonPhi := -1
	for i, instr := range fr.block.Instrs {
		if _, ok := instr.(*ssa.Phi); !ok {
			firstNonPhi = i
			break
		}
	}
	// Inv: 0 <= firstNonPhi; every block contains a non-phi.

	nonPhis := fr.block.Instrs[firstNonPhi:]
	if firstNonPhi > 0 {
		phis := fr.block.Instrs[:firstNonPhi]
		predIndex := slices.Index(fr.block.Preds, fr.prevBlock)
		fr.phitemps = fr.phitemps[:0]
		for _, phi := range phis {
			phi := phi.(*ssa.Phi)
			fr.phitemps = append(fr.phitemps, fr.get(phi.Edges[predIndex]))
		}
		for i, phi := range phis {
			fr.env[phi.(*ssa.Phi)] = fr.phitemps[i]
		}
	}
	return nonPhis
}

// doRecover implements the recover() built-in.
func doRecover(caller *frame) value {
	// recover() must be exactly one level beneath the deferred
	// function (two levels beneath the panicking function) to
	// have any effect.  Thus we ignore both "defer recover()" and
	// "defer f() -> g() -> recover()".
	if caller != nil && !caller.panicking &&
		caller.caller != nil && caller.caller.panicking {
		caller.caller.panicking = false
		p := caller.caller.panic
		caller.caller.panic = nil

		switch p := p.(type) {
		case targetPanic:
			// The target program explicitly called panic().
			return p.v
		default:
			panic(fmt.Sprintf("unexpected panic type %T in target call to recover()", p))
		}
	}
	return iface{}
}

// ---------------------------------------------------------------- unsafe views

func (i *interpreter) convUnsafe(tDst, tSrc types.Type, x value) (value, bool) {
	utSrc, utDst := tSrc.Underlying(), tDst.Underlying()
	// *T -> unsafe.Pointer
	if _, ok := utSrc.(*types.Pointer); ok {
		if b, ok := utDst.(*types.Basic); ok && b.Kind() == types.UnsafePointer {
			switch p := x.(type) {
			case *value:
				return uptr{p: p, t: tSrc, org: i.elemOrigin[p]}, true
			case viewptr:
				return uptr{org: p.org, t: tSrc}, true
			}
		}
	}
	// unsafe.Pointer -> *T
	if b, ok := utSrc.(*types.Basic); ok && b.Kind() == types.UnsafePointer {
		if _, ok := utDst.(*types.Pointer); ok {
			u, ok := x.(uptr)
			if !ok {
				return zero(tDst), true
			}
			if u.p == nil && u.org == nil {
				return zero(tDst), true
			}
			if u.t != nil && types.Identical(u.t.Underlying(), utDst) && u.p != nil {
				return u.p, true
			}
			if u.org != nil {
				to := mustDeref(tDst)
				if types.Identical(to, u.org.elem) && u.p != nil {
					return u.p, true
				}
				return viewptr{org: u.org, to: to}, true
			}
			panic(unsupported{fmt.Sprintf("unsafe.Pointer conversion %s -> %s", u.t, tDst)})
		}
	}
	return nil, false
}

// byteTerms returns the little-endian byte values of element e of type t.
func (i *interpreter) elemBytes(e value, t types.Type) []value {
	k, ok := basicKind(t)
	if !ok {
		panic(unsupported{"reinterpreting view over " + t.String()})
	}
	st := i.st
	switch {
	case k == types.Uint8:
		return []value{e}
	case k == types.Float64:
		var bits value
		if s, ok := e.(sym); ok {
			bits = i.float64bits(s)
		} else {
			bits = *(*uint64)(unsafe.Pointer(ptrTo(e.(float64))))
		}
		return i.elemBytes(bits, types.Typ[types.Uint64])
	case isIntKind(k):
		w := kindWidth(k)
		out := make([]value, w/8)
		if s, ok := e.(sym); ok {
			for b := 0; b < w/8; b++ {
				out[b] = i.mkSym(st.Extract(8*b+7, 8*b, s.t), types.Uint8)
			}
		} else {
			u := uint64(asInt64(e))
			for b := 0; b < w/8; b++ {
				out[b] = uint8(u >> (8 * uint(b)))
			}
		}
		return out
	}
	panic(unsupported{"reinterpreting view over " + t.String()})
}

func ptrTo(f float64) *float64 { return &f }

// bytesElem assembles a value of type t from little-endian bytes.
func (i *interpreter) bytesElem(bs []value, t types.Type) value {
	k, ok := basicKind(t)
	if !ok {
		panic(unsupported{"reinterpreting view to " + t.String()})
	}
	st := i.st
	if k == types.Uint8 {
		return bs[0]
	}
	anySym := false
	for _, b := range bs {
		if isSym(b) {
			anySym = true
		}
	}
	w := 8 * len(bs)
	var bits value
	if !anySym {
		var u uint64
		for b := range bs {
			u |= uint64(bs[b].(uint8)) << (8 * uint(b))
		}
		bits = u
	} else {
		var t *Term
		for b := range bs {
			bt := i.bvTerm(bs[b])
			if t == nil {
				t = bt
			} else {
				t = st.Concat(bt, t)
			}
		}
		bits = sym{t, types.Uint64}
		if w != 64 {
			bits = sym{t, map[int]types.BasicKind{8: types.Uint8, 16: types.Uint16, 32: types.Uint32}[w]}
		}
	}
	switch {
	case k == types.Float64:
		if s, ok := bits.(sym); ok {
			return i.mkSym(st.FPOfBV(s.t), types.Float64)
		}
		u := bits.(uint64)
		return *(*float64)(unsafe.Pointer(&u))
	case isIntKind(k):
		if s, ok := bits.(sym); ok {
			return sym{s.t, k}
		}
		return concreteOfKind(k, bits.(uint64))
	}
	panic(unsupported{"reinterpreting view to " + t.String()})
}

// viewSlice implements unsafe.Slice(viewptr, n): a snapshot copy of the
// reinterpreted elements (the library only reads through such views).
func (i *interpreter) viewSlice(v viewptr, n int) []value {
	srcSz := int(i.sizes.Sizeof(v.org.elem))
	dstSz := int(i.sizes.Sizeof(v.to))
	total := n * dstSz
	if total > len(v.org.backing)*srcSz {
		i.rtPanic("unsafe.Slice view beyond the backing array")
	}
	var bytes []value
	for k := 0; k*srcSz < total; k++ {
		bytes = append(bytes, i.elemBytes(v.org.backing[k], v.org.elem)...)
	}
	out := make([]value, n)
	for k := 0; k < n; k++ {
		out[k] = i.bytesElem(bytes[k*dstSz:(k+1)*dstSz], v.to)
	}
	i.noteStub("unsafe.Slice view (read-only snapshot)")
	return out
}

func (i *interpreter) viewStore(v viewptr, val value) {
	srcSz := int(i.sizes.Sizeof(v.org.elem))
	bs := i.elemBytes(val, v.to)
	if srcSz != 1 {
		panic(unsupported{"store through a reinterpreting view of non-byte elements"})
	}
	if len(bs) > len(v.org.backing) {
		i.rtPanic("store through view beyond the backing array")
	}
	for k := range bs {
		i.store(v.org.elem, &v.org.backing[k], bs[k])
	}
}

func (i *interpreter) viewLoad(v viewptr) value {
	srcSz := int(i.sizes.Sizeof(v.org.elem))
	dstSz := int(i.sizes.Sizeof(v.to))
	var bytes []value
	for k := 0; k*srcSz < dstSz; k++ {
		bytes = append(bytes, i.elemBytes(v.org.backing[k], v.org.elem)...)
	}
	return i.bytesElem(bytes[:dstSz], v.to)
}
