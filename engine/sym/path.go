package sym

// Path exploration by re-execution with a decision prefix.

import (
	"fmt"
	"go/types"
	"os"
	"sort"
	"strings"
	"sync/atomic"
)

var debugPicks = os.Getenv("VERIF_DEBUG_PICKS") != ""

// Decision is one recorded choice on a path.
type Decision struct {
	Kind byte  // 'b' branch, 'p' pick value, 'n' not-value (exclusion during a pick)
	Val  int64 // branch: 0/1; pick/not: the value
}

func (d Decision) String() string {
	switch d.Kind {
	case 'b':
		if d.Val != 0 {
			return "T"
		}
		return "F"
	case 'p':
		return fmt.Sprintf("=%d", d.Val)
	case 'n':
		return fmt.Sprintf("!%d", d.Val)
	}
	return "?"
}

func decisionsString(ds []Decision) string {
	var sb strings.Builder
	for _, d := range ds {
		sb.WriteString(d.String())
	}
	return sb.String()
}

// WorkItem is a decision prefix to explore, with a model known to satisfy it
// (nil if none is known).
type WorkItem struct {
	Prefix []Decision
	Model  Model
}

// engineAbort unwinds the whole path (never caught by target-level recover).
type engineAbort struct {
	kind string // "assume", "unsupported", "unwind", "infeasible", "assert", "frozen-write", "alloc", "done"
	msg  string
}

type unsupported struct{ msg string }

// pathState is the per-path exploration state held by the interpreter.
type pathState struct {
	prefix       []Decision
	pos          int
	trace        []Decision
	pc           []*Term // path condition (decisions and assumptions)
	pcSet        map[*Term]bool
	model        Model // satisfies pc, or nil
	evalCache    map[*Term]Val
	newWork      []WorkItem
	inputs       []InputDecl
	inputSeq     map[string]int
	reached      map[string]bool
	observed     []Observation
	ufUsed       map[string]int
	inexact      map[string]int
	stubsHit     map[string]int
	loopCount    map[interface{}]int
	picks        int
	steps        int64
	allocated    int64
	frozenHit    []string
	asserts      int
	discharged   int
	inconclusive []string
	violations   []Violation
	rangeCount   int
	mapMark      bool // set by vfMapOrderMark (map-order schedules)
	floatTokens  []*Term
	merging      int // >0 while executing a merged (if-converted) call
	mergeDecs    []mergeDec
	mergePos     int
}

type mergeDec struct {
	cond *Term
	val  bool
}

// InputDecl describes a symbolic input created by a vf* intrinsic.
type InputDecl struct {
	Name string
	Kind string // "int", "byte", "bool", "float64bits", "lattice"
	Var  string // solver variable name
	Lo   int64
	Hi   int64
}

type Observation struct {
	Label string
	Term  *Term
	Conc  value
	Kind  types.BasicKind
}

func (i *interpreter) abort(kind, msg string) {
	panic(engineAbort{kind, msg})
}

func (i *interpreter) rtPanic(msg string) {
	panic(targetPanic{iface{i.runtimeErrorString, msg}})
}

func (i *interpreter) noteUF(name string) {
	if i.ps != nil {
		i.ps.ufUsed[name]++
	}
}

func (i *interpreter) noteInexact(name string) {
	if i.ps != nil {
		i.ps.inexact[name]++
	}
}

func (i *interpreter) noteStub(name string) {
	if i.ps != nil {
		i.ps.stubsHit[name]++
	}
}

// addFact conjoins a condition known to hold (assumption or axiom instance).
func (i *interpreter) addFact(c *Term) {
	ps := i.ps
	if c == i.st.True || ps.pcSet[c] {
		return
	}
	ps.pc = append(ps.pc, c)
	ps.pcSet[c] = true
	if ps.model != nil {
		v, ok := Eval(c, ps.model, ps.evalCache)
		if !ok || !v.B {
			ps.model = nil
			ps.evalCache = map[*Term]Val{}
		}
	}
}

// truth forces a bool-or-symbolic-bool to a concrete bool by branching.
func (i *interpreter) truth(v value) bool {
	switch v := v.(type) {
	case bool:
		return v
	case sym:
		return i.decide(v.t)
	}
	panic(fmt.Sprintf("truth of %T", v))
}

// checkSat decides pc ∧ extra. Returns result and a model when Sat.
func (i *interpreter) checkSat(extra ...*Term) (Result, Model) {
	as := make([]*Term, 0, len(i.ps.pc)+len(extra))
	as = append(as, i.ps.pc...)
	as = append(as, extra...)
	return i.solver.Check(as, true, false)
}

// decide chooses a side of a symbolic condition.
func (i *interpreter) decide(c *Term) bool {
	st := i.st
	if c == st.True {
		return true
	}
	if c == st.False {
		return false
	}
	ps := i.ps
	if ps == nil {
		panic("symbolic branch outside of a path")
	}
	if ps.merging > 0 {
		return i.mergeDecide(c)
	}
	nc := st.Not(c)
	// syntactic
	if ps.pcSet[c] {
		atomic.AddInt64(&i.solver.Stats.Syntactic, 1)
		return true
	}
	if ps.pcSet[nc] {
		atomic.AddInt64(&i.solver.Stats.Syntactic, 1)
		return false
	}
	if ps.pos < len(ps.prefix) {
		d := ps.prefix[ps.pos]
		if d.Kind != 'b' {
			panic(engineAbort{"engine", fmt.Sprintf("decision replay mismatch: want branch, have %v at %d", d, ps.pos)})
		}
		ps.pos++
		ps.trace = append(ps.trace, d)
		if d.Val != 0 {
			i.pushPC(c)
			return true
		}
		i.pushPC(nc)
		return false
	}
	// frontier
	var side, known bool
	if ps.model != nil {
		if v, ok := Eval(c, ps.model, ps.evalCache); ok {
			side, known = v.B, true
			atomic.AddInt64(&i.solver.Stats.ModelHits, 1)
		}
	}
	var otherFeasible bool
	var otherModel Model
	if known {
		oc := nc
		if !side {
			oc = c
		}
		r, m := i.checkSat(oc)
		otherFeasible = r != Unsat
		otherModel = m
	} else {
		r1, m1 := i.checkSat(c)
		r2, m2 := i.checkSat(nc)
		switch {
		case r1 == Unsat && r2 == Unsat:
			i.abort("infeasible", "both sides of a branch are infeasible (path condition unsat)")
		case r1 == Unsat:
			side, otherFeasible = false, false
			if m2 != nil {
				i.setModel(m2)
			}
		case r2 == Unsat:
			side, otherFeasible = true, false
			if m1 != nil {
				i.setModel(m1)
			}
		default:
			side, otherFeasible, otherModel = true, true, m2
			if r1 == Sat && m1 != nil {
				i.setModel(m1)
			} else {
				ps.model = nil
			}
		}
	}
	dv := int64(0)
	if side {
		dv = 1
	}
	if otherFeasible {
		alt := append(append([]Decision{}, ps.trace...), Decision{'b', 1 - dv})
		ps.newWork = append(ps.newWork, WorkItem{Prefix: alt, Model: otherModel})
	}
	ps.trace = append(ps.trace, Decision{'b', dv})
	if side {
		i.pushPC(c)
	} else {
		i.pushPC(nc)
	}
	return side
}

func (i *interpreter) setModel(m Model) {
	i.ps.model = m
	i.ps.evalCache = map[*Term]Val{}
}

func (i *interpreter) pushPC(c *Term) {
	ps := i.ps
	if !ps.pcSet[c] {
		ps.pc = append(ps.pc, c)
		ps.pcSet[c] = true
	}
	if ps.model != nil {
		v, ok := Eval(c, ps.model, ps.evalCache)
		if !ok || !v.B {
			ps.model = nil
			ps.evalCache = map[*Term]Val{}
		}
	}
}

// concretize forces an integer term to a concrete value by enumerating its
// feasible values (forking). what names the site for diagnostics.
func (i *interpreter) concretize(v value, what string) int64 {
	s, ok := v.(sym)
	if !ok {
		return asInt64(v)
	}
	st := i.st
	ps := i.ps
	if ps.merging > 0 {
		i.abort("unsupported", "concretisation inside a merged call: "+what)
	}
	w := s.t.S.W
	signed := kindSigned(s.k)
	toI := func(u uint64) int64 {
		if signed {
			return sx(u, w)
		}
		return int64(u)
	}
	for n := 0; ; n++ {
		if n > i.cfg.MaxPicks {
			i.abort("unwind", fmt.Sprintf("more than %d feasible values at %s", i.cfg.MaxPicks, what))
		}
		if ps.pos < len(ps.prefix) {
			d := ps.prefix[ps.pos]
			ps.pos++
			ps.trace = append(ps.trace, d)
			c := st.Eq(s.t, st.BVConst(uint64(d.Val), w))
			switch d.Kind {
			case 'p':
				i.pushPC(c)
				return d.Val
			case 'n':
				i.pushPC(st.Not(c))
				continue
			default:
				panic(engineAbort{"engine", "decision replay mismatch: want pick"})
			}
		}
		// frontier: find a feasible value
		var val uint64
		have := false
		if ps.model != nil {
			if ev, ok := Eval(s.t, ps.model, ps.evalCache); ok {
				val, have = ev.U, true
			}
		}
		if !have {
			r, m := i.checkSat()
			if r == Unsat {
				i.abort("infeasible", "path condition unsat at pick")
			}
			if m == nil {
				i.abort("unsupported", "no model available to pick a value at "+what)
			}
			i.setModel(m)
			ev, ok := Eval(s.t, m, ps.evalCache)
			if !ok {
				i.abort("unsupported", "cannot evaluate pick term at "+what)
			}
			val = ev.U
		}
		if debugPicks {
			fmt.Fprintf(os.Stderr, "pick %s = %d  term=%s\n", what, toI(val), s.t.String())
		}
		c := st.Eq(s.t, st.BVConst(val, w))
		// is another value possible?
		r, m := i.checkSat(st.Not(c))
		if r != Unsat {
			alt := append(append([]Decision{}, ps.trace...), Decision{'n', toI(val)})
			ps.newWork = append(ps.newWork, WorkItem{Prefix: alt, Model: m})
		}
		ps.trace = append(ps.trace, Decision{'p', toI(val)})
		ps.picks++
		i.pushPC(c)
		return toI(val)
	}
}

// ---------------------------------------------------------------- merged calls (if-conversion)

// mergeDecide is decide() while executing a merged call: no solver, both
// sides are explored by the local DFS in callMerged.
func (i *interpreter) mergeDecide(c *Term) bool {
	ps := i.ps
	if ps.mergePos < len(ps.mergeDecs) {
		d := ps.mergeDecs[ps.mergePos]
		ps.mergePos++
		return d.val
	}
	ps.mergeDecs = append(ps.mergeDecs, mergeDec{c, true})
	ps.mergePos++
	return true
}

// callMerged runs fn on every local path and joins the results with ite.
func (i *interpreter) callMerged(run func() value) value {
	ps := i.ps
	if ps.merging > 0 {
		// nested: just run within the outer local DFS
		return run()
	}
	st := i.st
	type res struct {
		cond *Term
		v    value
	}
	var results []res
	ps.merging++
	ps.mergeDecs = nil
	defer func() { ps.merging--; ps.mergeDecs = nil; ps.mergePos = 0 }()
	for {
		ps.mergePos = 0
		v := run()
		cond := st.True
		for _, d := range ps.mergeDecs[:ps.mergePos] {
			if d.val {
				cond = st.And(cond, d.cond)
			} else {
				cond = st.And(cond, st.Not(d.cond))
			}
		}
		results = append(results, res{cond, v})
		if len(results) > 64 {
			i.abort("unsupported", "merged call has more than 64 paths")
		}
		// next local path: flip the last true decision
		k := ps.mergePos - 1
		ps.mergeDecs = ps.mergeDecs[:ps.mergePos]
		for k >= 0 && !ps.mergeDecs[k].val {
			k--
		}
		if k < 0 {
			break
		}
		ps.mergeDecs[k].val = false
		ps.mergeDecs = ps.mergeDecs[:k+1]
	}
	out := results[len(results)-1].v
	for k := len(results) - 2; k >= 0; k-- {
		out = i.iteValue(results[k].cond, results[k].v, out)
	}
	return out
}

func (i *interpreter) iteValue(c *Term, a, b value) value {
	st := i.st
	switch av := a.(type) {
	case tuple:
		bv := b.(tuple)
		r := make(tuple, len(av))
		for k := range av {
			r[k] = i.iteValue(c, av[k], bv[k])
		}
		return r
	case structure:
		bv := b.(structure)
		r := make(structure, len(av))
		for k := range av {
			r[k] = i.iteValue(c, av[k], bv[k])
		}
		return r
	case array:
		bv := b.(array)
		r := make(array, len(av))
		for k := range av {
			r[k] = i.iteValue(c, av[k], bv[k])
		}
		return r
	case nil:
		if b == nil {
			return nil
		}
	}
	ka, kb := kindOf(a), kindOf(b)
	if ka == types.Invalid || ka != kb {
		if fmt.Sprint(a) == fmt.Sprint(b) {
			return a
		}
		i.abort("unsupported", fmt.Sprintf("cannot merge values %T / %T", a, b))
	}
	if !isSym(a) && !isSym(b) && a == b {
		return a
	}
	switch {
	case ka == types.Bool:
		return i.mkSym(st.Ite(c, i.boolTerm(a), i.boolTerm(b)), ka)
	case ka == types.Float64:
		var ta, tb *Term
		if isSym(a) || isSym(b) {
			ta, tb, _ = i.floatTermsMixed(a, b)
		}
		return i.mkSym(st.Ite(c, ta, tb), ka)
	case isIntKind(ka):
		return i.mkSym(st.Ite(c, i.bvTerm(a), i.bvTerm(b)), ka)
	}
	i.abort("unsupported", fmt.Sprintf("cannot merge values of kind %v", ka))
	return nil
}

func (i *interpreter) floatTermsMixed(a, b value) (*Term, *Term, bool) {
	if !isSym(a) && !isSym(b) {
		return i.st.FPConst(a.(float64)), i.st.FPConst(b.(float64)), false
	}
	return i.floatTerms(a, b)
}

// ---------------------------------------------------------------- frozen memory (C10)

type addrRange struct{ lo, hi uintptr }

type frozenSet struct {
	ranges []addrRange
	sorted bool
	keep   []interface{} // keeps frozen objects reachable (addresses stay valid)
	maps   []*smap
}

func (f *frozenSet) add(lo, hi uintptr, keep interface{}) {
	f.ranges = append(f.ranges, addrRange{lo, hi})
	f.keep = append(f.keep, keep)
	f.sorted = false
}

func (f *frozenSet) contains(p uintptr) bool {
	if !f.sorted {
		sort.Slice(f.ranges, func(a, b int) bool { return f.ranges[a].lo < f.ranges[b].lo })
		// merge overlapping ranges
		out := f.ranges[:0]
		for _, r := range f.ranges {
			if n := len(out); n > 0 && r.lo <= out[n-1].hi {
				if r.hi > out[n-1].hi {
					out[n-1].hi = r.hi
				}
				continue
			}
			out = append(out, r)
		}
		f.ranges = out
		f.sorted = true
	}
	k := sort.Search(len(f.ranges), func(k int) bool { return f.ranges[k].lo > p })
	return k > 0 && p < f.ranges[k-1].hi
}
