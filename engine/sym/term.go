package sym

// Terms: a hash-consed DAG of SMT-LIB expressions over the sorts Bool,
// BitVec(w), Float64 (FloatingPoint 11 53) and Real, with a printer and a
// concrete evaluator (used for model-guided branch selection and witness
// extraction).

import (
	"fmt"
	"math"
	"math/big"
	"math/bits"
	"sort"
	"strconv"
	"strings"
)

type SortKind uint8

const (
	KBool SortKind = iota
	KBV
	KFP
	KReal
)

type Sort struct {
	K SortKind
	W int // BV width
}

var (
	SBool = Sort{K: KBool}
	SFP   = Sort{K: KFP}
	SReal = Sort{K: KReal}
)

func SBV(w int) Sort { return Sort{K: KBV, W: w} }

func (s Sort) smt() string {
	switch s.K {
	case KBool:
		return "Bool"
	case KBV:
		return fmt.Sprintf("(_ BitVec %d)", s.W)
	case KFP:
		return "(_ FloatingPoint 11 53)"
	case KReal:
		return "Real"
	}
	panic("bad sort")
}

// realInfo carries the exactness bookkeeping of a Real-sorted term that
// stands for a float64 (DESIGN 4.2): the value is n*2^-s, n within [lo,hi]*2^s.
type realInfo struct {
	lo, hi *big.Rat // bounds on the value (nil = unbounded)
	s      int      // denominator exponent: value*2^s is an integer on lattice inputs
	exact  bool     // float64 value == real value, provably
}

type Term struct {
	Op   string
	Args []*Term
	S    Sort
	// leaf / parameter data
	Name string   // var name, or UF name
	BV   uint64   // bv const
	B    bool     // bool const
	F    float64  // fp const
	R    *big.Rat // real const
	P1   int      // extract hi / extend amount
	P2   int      // extract lo
	id   int
	ri   *realInfo
	// IntVar marks a Real var that ranges over integers (lattice input).
	IntVar bool
}

func (t *Term) ID() int { return t.id }

// Store is a per-worker hash-consing table.
type Store struct {
	tab   map[string]*Term
	next  int
	fresh int
	// HuntMode: fp.mul/div/sqrt are emitted precisely instead of as UFs.
	HuntMode bool
	True     *Term
	False    *Term
}

func NewStore() *Store {
	s := &Store{tab: map[string]*Term{}}
	s.True = s.mk(&Term{Op: "true", S: SBool, B: true})
	s.False = s.mk(&Term{Op: "false", S: SBool, B: false})
	return s
}

func (s *Store) key(t *Term) string {
	var b strings.Builder
	b.WriteString(t.Op)
	b.WriteByte('|')
	b.WriteString(strconv.Itoa(int(t.S.K)))
	b.WriteByte(':')
	b.WriteString(strconv.Itoa(t.S.W))
	b.WriteByte('|')
	switch t.Op {
	case "var", "uf", "ufvar":
		b.WriteString(t.Name)
	case "bvconst":
		b.WriteString(strconv.FormatUint(t.BV, 16))
	case "fpconst":
		b.WriteString(strconv.FormatUint(math.Float64bits(t.F), 16))
	case "realconst":
		b.WriteString(t.R.String())
	case "extract", "zext", "sext":
		b.WriteString(strconv.Itoa(t.P1))
		b.WriteByte(',')
		b.WriteString(strconv.Itoa(t.P2))
	}
	for _, a := range t.Args {
		b.WriteByte(' ')
		b.WriteString(strconv.Itoa(a.id))
	}
	return b.String()
}

func (s *Store) mk(t *Term) *Term {
	k := s.key(t)
	if e, ok := s.tab[k]; ok {
		return e
	}
	s.next++
	t.id = s.next
	s.tab[k] = t
	return t
}

func (s *Store) Size() int { return len(s.tab) }

// ---------------------------------------------------------------- leaves

func (s *Store) Var(name string, so Sort) *Term {
	return s.mk(&Term{Op: "var", Name: name, S: so})
}

func (s *Store) Fresh(prefix string, so Sort) *Term {
	s.fresh++
	return s.Var(fmt.Sprintf("%s!%d", prefix, s.fresh), so)
}

func (s *Store) Bool(b bool) *Term {
	if b {
		return s.True
	}
	return s.False
}

func mask(w int) uint64 {
	if w >= 64 {
		return ^uint64(0)
	}
	return (uint64(1) << uint(w)) - 1
}

func (s *Store) BVConst(v uint64, w int) *Term {
	return s.mk(&Term{Op: "bvconst", BV: v & mask(w), S: SBV(w)})
}

func (s *Store) FPConst(f float64) *Term {
	return s.mk(&Term{Op: "fpconst", F: f, S: SFP})
}

func (s *Store) RealConst(r *big.Rat) *Term {
	t := s.mk(&Term{Op: "realconst", R: new(big.Rat).Set(r), S: SReal})
	return t
}

func (t *Term) IsConst() bool {
	switch t.Op {
	case "true", "false", "bvconst", "fpconst", "realconst":
		return true
	}
	return false
}

// ---------------------------------------------------------------- generic constructor with folding

func (s *Store) app(op string, so Sort, args ...*Term) *Term {
	t := &Term{Op: op, S: so, Args: args}
	return s.fold(t)
}

func (s *Store) appP(op string, so Sort, p1, p2 int, args ...*Term) *Term {
	t := &Term{Op: op, S: so, Args: args, P1: p1, P2: p2}
	return s.fold(t)
}

// fold evaluates all-constant applications (except UFs).
func (s *Store) fold(t *Term) *Term {
	if t.Op == "uf" || t.Op == "ufvar" {
		return s.mk(t)
	}
	for _, a := range t.Args {
		if !a.IsConst() {
			return s.mk(t)
		}
	}
	v, ok := evalOp(t, func(i int) (Val, bool) { return constVal(t.Args[i]), true })
	if !ok {
		return s.mk(t)
	}
	return s.FromVal(v, t.S)
}

func (s *Store) FromVal(v Val, so Sort) *Term {
	switch so.K {
	case KBool:
		return s.Bool(v.B)
	case KBV:
		return s.BVConst(v.U, so.W)
	case KFP:
		return s.FPConst(v.F)
	case KReal:
		return s.RealConst(v.R)
	}
	panic("bad sort")
}

// ---------------------------------------------------------------- Bool

func (s *Store) Not(a *Term) *Term {
	if a.Op == "not" {
		return a.Args[0]
	}
	return s.app("not", SBool, a)
}

func (s *Store) And(a, b *Term) *Term {
	if a == s.True {
		return b
	}
	if b == s.True {
		return a
	}
	if a == s.False || b == s.False {
		return s.False
	}
	if a == b {
		return a
	}
	return s.app("and", SBool, a, b)
}

func (s *Store) Or(a, b *Term) *Term {
	if a == s.False {
		return b
	}
	if b == s.False {
		return a
	}
	if a == s.True || b == s.True {
		return s.True
	}
	if a == b {
		return a
	}
	return s.app("or", SBool, a, b)
}

func (s *Store) AndN(ts []*Term) *Term {
	r := s.True
	for _, t := range ts {
		r = s.And(r, t)
	}
	return r
}

func (s *Store) Ite(c, a, b *Term) *Term {
	if c == s.True {
		return a
	}
	if c == s.False {
		return b
	}
	if a == b {
		return a
	}
	if a.S.K == KBool {
		if a == s.True && b == s.False {
			return c
		}
		if a == s.False && b == s.True {
			return s.Not(c)
		}
	}
	t := s.app("ite", a.S, c, a, b)
	if a.S.K == KReal && t.ri == nil {
		t.ri = joinInfo(a.ri, b.ri)
	}
	return t
}

func (s *Store) Eq(a, b *Term) *Term {
	if a == b && a.S.K != KFP {
		return s.True
	}
	if a.S != b.S {
		panic(fmt.Sprintf("Eq sort mismatch %v %v", a.S, b.S))
	}
	if a.S.K == KReal {
		if d, ok := linDiffConst(a, b); ok {
			return s.Bool(d.Sign() == 0)
		}
	}
	switch a.S.K {
	case KFP:
		return s.app("fp.eq", SBool, a, b)
	case KBool:
		if b == s.True {
			return a
		}
		if b == s.False {
			return s.Not(a)
		}
		if a == s.True {
			return b
		}
		if a == s.False {
			return s.Not(b)
		}
	}
	if a.id > b.id {
		a, b = b, a
	}
	return s.app("=", SBool, a, b)
}

// ---------------------------------------------------------------- BV

func (s *Store) BV2(op string, a, b *Term) *Term {
	if a.S != b.S {
		panic(fmt.Sprintf("%s sort mismatch %v %v", op, a.S, b.S))
	}
	w := a.S.W
	// local simplifications
	switch op {
	case "bvadd", "bvor", "bvxor":
		if isBVConst(a, 0) {
			return b
		}
		if isBVConst(b, 0) {
			return a
		}
	case "bvsub", "bvshl", "bvlshr", "bvashr":
		if isBVConst(b, 0) {
			return a
		}
	case "bvand":
		if isBVConst(a, 0) || isBVConst(b, 0) {
			return s.BVConst(0, w)
		}
		if isBVConst(b, mask(w)) {
			return a
		}
		if isBVConst(a, mask(w)) {
			return b
		}
	case "bvmul":
		if isBVConst(a, 1) {
			return b
		}
		if isBVConst(b, 1) {
			return a
		}
		if isBVConst(a, 0) || isBVConst(b, 0) {
			return s.BVConst(0, w)
		}
	}
	r := s.app(op, a.S, a, b)
	if op == "bvor" && w <= 64 {
		if src, m, ok := lanes(r); ok && m == mask(w) && src.S.W == w {
			return src
		}
	}
	return r
}

func isBVConst(t *Term, v uint64) bool { return t.Op == "bvconst" && t.BV == v }

// lanes recognises terms that consist of bits of one source term at their
// original positions (zero elsewhere): the shape produced by reassembling a
// word from its bytes with shifts and ors (binary.LittleEndian.Uint64 etc.).
func lanes(t *Term) (src *Term, m uint64, ok bool) {
	w := t.S.W
	if w > 64 {
		return nil, 0, false
	}
	switch t.Op {
	case "zext":
		in := t.Args[0]
		if in.Op == "extract" && in.P2 == 0 && in.Args[0].S.W == w {
			return in.Args[0], mask(in.P1 + 1), true
		}
		if s2, m2, ok2 := lanes(in); ok2 && s2.S.W == w {
			return s2, m2, true
		}
	case "bvshl":
		c := t.Args[1]
		in := t.Args[0]
		if c.Op == "bvconst" && in.Op == "zext" {
			e := in.Args[0]
			if e.Op == "extract" && e.Args[0].S.W == w && uint64(e.P2) == c.BV {
				return e.Args[0], (mask(e.P1-e.P2+1) << uint(e.P2)) & mask(w), true
			}
		}
	case "bvor":
		s1, m1, ok1 := lanes(t.Args[0])
		s2, m2, ok2 := lanes(t.Args[1])
		if ok1 && ok2 && s1 == s2 && m1&m2 == 0 {
			return s1, m1 | m2, true
		}
	case "bvand":
		if c := t.Args[1]; c.Op == "bvconst" {
			// x & contiguous-low-mask
			return t.Args[0], c.BV, true
		}
	}
	return nil, 0, false
}

func (s *Store) BVCmp(op string, a, b *Term) *Term {
	if a.S != b.S {
		panic(fmt.Sprintf("%s sort mismatch %v %v", op, a.S, b.S))
	}
	return s.app(op, SBool, a, b)
}

func (s *Store) BVNot(a *Term) *Term { return s.app("bvnot", a.S, a) }
func (s *Store) BVNeg(a *Term) *Term { return s.app("bvneg", a.S, a) }

func (s *Store) Extract(hi, lo int, a *Term) *Term {
	if lo == 0 && hi == a.S.W-1 {
		return a
	}
	switch a.Op {
	case "extract":
		return s.Extract(hi+a.P2, lo+a.P2, a.Args[0])
	case "zext":
		in := a.Args[0]
		if hi < in.S.W {
			return s.Extract(hi, lo, in)
		}
		if lo >= in.S.W {
			return s.BVConst(0, hi-lo+1)
		}
	case "sext":
		in := a.Args[0]
		if hi < in.S.W {
			return s.Extract(hi, lo, in)
		}
	case "concat":
		l := a.Args[1].S.W
		if hi < l {
			return s.Extract(hi, lo, a.Args[1])
		}
		if lo >= l {
			return s.Extract(hi-l, lo-l, a.Args[0])
		}
	case "bvlshr":
		if c := a.Args[1]; c.Op == "bvconst" && int(c.BV)+hi < a.S.W {
			return s.Extract(hi+int(c.BV), lo+int(c.BV), a.Args[0])
		}
	case "bvshl":
		if c := a.Args[1]; c.Op == "bvconst" && lo >= int(c.BV) && c.BV < 64 {
			return s.Extract(hi-int(c.BV), lo-int(c.BV), a.Args[0])
		}
		if c := a.Args[1]; c.Op == "bvconst" && hi < int(c.BV) {
			return s.BVConst(0, hi-lo+1)
		}
	case "bvor", "bvand", "bvxor":
		return s.BV2(a.Op, s.Extract(hi, lo, a.Args[0]), s.Extract(hi, lo, a.Args[1]))
	}
	return s.appP("extract", SBV(hi-lo+1), hi, lo, a)
}

func (s *Store) ZExt(a *Term, w int) *Term {
	if w == a.S.W {
		return a
	}
	if w < a.S.W {
		return s.Extract(w-1, 0, a)
	}
	return s.appP("zext", SBV(w), w-a.S.W, 0, a)
}

func (s *Store) SExt(a *Term, w int) *Term {
	if w == a.S.W {
		return a
	}
	if w < a.S.W {
		return s.Extract(w-1, 0, a)
	}
	return s.appP("sext", SBV(w), w-a.S.W, 0, a)
}

func (s *Store) Concat(hi, lo *Term) *Term {
	// concat of adjacent extracts of the same term
	if hi.Op == "extract" && lo.Op == "extract" && hi.Args[0] == lo.Args[0] && hi.P2 == lo.P1+1 {
		return s.Extract(hi.P1, lo.P2, hi.Args[0])
	}
	return s.app("concat", SBV(hi.S.W+lo.S.W), hi, lo)
}

// ---------------------------------------------------------------- FP

// FPOfBV reinterprets a 64-bit vector as a float64.
func (s *Store) FPOfBV(b *Term) *Term {
	if b.S != SBV(64) {
		panic("FPOfBV width")
	}
	return s.app("fp_of_bv", SFP, b)
}

func (s *Store) FP2(op string, a, b *Term) *Term { return s.app(op, SFP, a, b) }
func (s *Store) FP1(op string, a *Term) *Term    { return s.app(op, SFP, a) }
func (s *Store) FPCmp(op string, a, b *Term) *Term {
	return s.app(op, SBool, a, b)
}
func (s *Store) FPPred(op string, a *Term) *Term { return s.app(op, SBool, a) }

// UF application (sound over-approximation of an operation the solver
// cannot reason about precisely).
// Applications are Ackermannised: each distinct application is a fresh
// variable ("ufvar") and BuildScript adds the congruence constraints between
// the applications of the same function that occur in a query. That keeps
// models evaluable by Eval.
func (s *Store) UF(name string, so Sort, args ...*Term) *Term {
	return s.mk(&Term{Op: "ufvar", Name: name, S: so, Args: args})
}

func (t *Term) ufVarName() string { return fmt.Sprintf("uf!%s!%d", t.Name, t.id) }

// ---------------------------------------------------------------- Real (EXACT twin)

func ratPow2(k int) *big.Rat {
	if k >= 0 {
		return new(big.Rat).SetInt(new(big.Int).Lsh(big.NewInt(1), uint(k)))
	}
	return new(big.Rat).SetFrac(big.NewInt(1), new(big.Int).Lsh(big.NewInt(1), uint(-k)))
}

var rat2p53 = ratPow2(53)

const maxScale = 1100

// LatticeRealVar is a real-valued location in [-2^k, 2^k] (never declared Int):
// the bound variable of an existential obligation.
func (s *Store) LatticeRealVar(name string, k int) *Term {
	t := s.mk(&Term{Op: "var", Name: name, S: SReal})
	if t.ri == nil {
		b := ratPow2(k)
		t.ri = &realInfo{lo: new(big.Rat).Neg(b), hi: b, s: 0, exact: true}
	}
	return t
}

// LatticeVar is an integer-valued float64 input in [-2^k, 2^k].
func (s *Store) LatticeVar(name string, k int) *Term {
	t := s.mk(&Term{Op: "var", Name: name, S: SReal, IntVar: true})
	if t.ri == nil {
		b := ratPow2(k)
		t.ri = &realInfo{lo: new(big.Rat).Neg(b), hi: b, s: 0, exact: true}
	}
	return t
}

// RealOfFloat lifts a concrete finite float64 into the exact domain.
func (s *Store) RealOfFloat(f float64) *Term {
	r := new(big.Rat)
	r.SetFloat64(f)
	t := s.RealConst(r)
	if t.ri == nil {
		sc := 0
		if !r.IsInt() {
			// denominator is a power of two
			sc = r.Denom().BitLen() - 1
		}
		t.ri = &realInfo{lo: r, hi: r, s: sc, exact: true}
	}
	return t
}

func (t *Term) RealExact() bool { return t.ri != nil && t.ri.exact }

func joinInfo(a, b *realInfo) *realInfo {
	if a == nil || b == nil {
		return nil
	}
	r := &realInfo{s: a.s, exact: a.exact && b.exact}
	if b.s > r.s {
		r.s = b.s
	}
	if a.lo != nil && b.lo != nil {
		r.lo = a.lo
		if b.lo.Cmp(r.lo) < 0 {
			r.lo = b.lo
		}
	}
	if a.hi != nil && b.hi != nil {
		r.hi = a.hi
		if b.hi.Cmp(r.hi) > 0 {
			r.hi = b.hi
		}
	}
	return r
}

// checkExact decides whether a result with the given bounds and scale is
// exactly representable as a float64 (|n| <= 2^53 with n = value*2^s).
func checkExact(lo, hi *big.Rat, sc int) bool {
	if lo == nil || hi == nil || sc > maxScale || sc < 0 {
		return false
	}
	m := new(big.Rat).Abs(lo)
	if h := new(big.Rat).Abs(hi); h.Cmp(m) > 0 {
		m = h
	}
	m.Mul(m, ratPow2(sc))
	return m.Cmp(rat2p53) <= 0
}

// RealArith builds x op y in the exact domain; ok=false means the result is
// not provably exact and the caller must fall back to an inexact value.
func (s *Store) RealArith(op string, a, b *Term) (*Term, bool) {
	// distribute over ite trees with constant leaves (tables such as ulpSize)
	if (op == "*" || op == "/") && b.Op == "realconst" && a.Op == "ite" && IteConstLeaves(a) {
		x, ok1 := s.RealArith(op, a.Args[1], b)
		y, ok2 := s.RealArith(op, a.Args[2], b)
		if ok1 && ok2 {
			return s.Ite(a.Args[0], x, y), true
		}
	}
	if op == "*" && a.Op == "realconst" && b.Op == "ite" && IteConstLeaves(b) {
		return s.RealArith(op, b, a)
	}
	ai, bi := a.ri, b.ri
	if ai == nil || bi == nil || !ai.exact || !bi.exact || ai.lo == nil || bi.lo == nil {
		return nil, false
	}
	var lo, hi *big.Rat
	sc := ai.s
	switch op {
	case "+":
		lo = new(big.Rat).Add(ai.lo, bi.lo)
		hi = new(big.Rat).Add(ai.hi, bi.hi)
		if bi.s > sc {
			sc = bi.s
		}
	case "-":
		lo = new(big.Rat).Sub(ai.lo, bi.hi)
		hi = new(big.Rat).Sub(ai.hi, bi.lo)
		if bi.s > sc {
			sc = bi.s
		}
	case "*":
		c := []*big.Rat{
			new(big.Rat).Mul(ai.lo, bi.lo), new(big.Rat).Mul(ai.lo, bi.hi),
			new(big.Rat).Mul(ai.hi, bi.lo), new(big.Rat).Mul(ai.hi, bi.hi)}
		lo, hi = c[0], c[0]
		for _, x := range c[1:] {
			if x.Cmp(lo) < 0 {
				lo = x
			}
			if x.Cmp(hi) > 0 {
				hi = x
			}
		}
		sc = ai.s + bi.s
	case "/":
		// only division by a concrete power of two is exact
		if b.Op != "realconst" || b.R.Sign() == 0 {
			return nil, false
		}
		r := new(big.Rat).Abs(b.R)
		k, okp := ratLog2(r)
		if !okp {
			return nil, false
		}
		inv := new(big.Rat).Inv(b.R)
		lo = new(big.Rat).Mul(ai.lo, inv)
		hi = new(big.Rat).Mul(ai.hi, inv)
		if lo.Cmp(hi) > 0 {
			lo, hi = hi, lo
		}
		sc = ai.s + k
		if sc < 0 {
			sc = 0
		}
	default:
		panic("RealArith " + op)
	}
	if !checkExact(lo, hi, sc) {
		return nil, false
	}
	if lo.Cmp(hi) == 0 {
		// the bounds pin the value
		t := s.RealConst(lo)
		if t.ri == nil {
			t.ri = &realInfo{lo: t.R, hi: t.R, s: 0, exact: true}
			if !t.R.IsInt() {
				t.ri.s = t.R.Denom().BitLen() - 1
			}
		}
		return t, true
	}
	t := s.app(op, SReal, a, b)
	if t.ri == nil {
		if t.Op == "realconst" {
			t.ri = &realInfo{lo: t.R, hi: t.R, s: sc, exact: true}
		} else {
			t.ri = &realInfo{lo: lo, hi: hi, s: sc, exact: true}
		}
	}
	return t, true
}

// IteConstLeaves: t is a tree of ite nodes whose leaves are real constants.
func IteConstLeaves(t *Term) bool {
	switch t.Op {
	case "realconst":
		return true
	case "ite":
		return IteConstLeaves(t.Args[1]) && IteConstLeaves(t.Args[2])
	}
	return false
}

// ratLog2 returns k with r == 2^k.
func ratLog2(r *big.Rat) (int, bool) {
	if r.Sign() <= 0 {
		return 0, false
	}
	n, d := r.Num(), r.Denom()
	if d.Cmp(big.NewInt(1)) == 0 {
		if n.BitLen()-1 == int(n.TrailingZeroBits()) {
			return n.BitLen() - 1, true
		}
		return 0, false
	}
	if n.Cmp(big.NewInt(1)) == 0 && d.BitLen()-1 == int(d.TrailingZeroBits()) {
		return -(d.BitLen() - 1), true
	}
	return 0, false
}

func (s *Store) RealNeg(a *Term) *Term {
	t := s.app("-", SReal, a)
	if t.ri == nil && a.ri != nil {
		ri := &realInfo{s: a.ri.s, exact: a.ri.exact}
		if a.ri.lo != nil {
			ri.lo = new(big.Rat).Neg(a.ri.hi)
			ri.hi = new(big.Rat).Neg(a.ri.lo)
		}
		t.ri = ri
	}
	return t
}

func (s *Store) RealCmp(op string, a, b *Term) *Term {
	// decide comparisons whose difference is a constant (translations)
	if d, ok := linDiffConst(a, b); ok {
		sg := d.Sign() // sign of a-b
		switch op {
		case "<":
			return s.Bool(sg < 0)
		case "<=":
			return s.Bool(sg <= 0)
		case "=":
			return s.Bool(sg == 0)
		}
	}
	if op == "=" {
		return s.Eq(a, b)
	}
	return s.app(op, SBool, a, b)
}

// linForm: t as a linear form over non-linear atoms; ok=false if too large.
func linForm(t *Term, scale *big.Rat, acc map[*Term]*big.Rat, c *big.Rat, depth int) bool {
	if depth > 40 {
		return false
	}
	switch t.Op {
	case "realconst":
		c.Add(c, new(big.Rat).Mul(scale, t.R))
		return true
	case "+":
		return linForm(t.Args[0], scale, acc, c, depth+1) && linForm(t.Args[1], scale, acc, c, depth+1)
	case "-":
		if len(t.Args) == 1 {
			return linForm(t.Args[0], new(big.Rat).Neg(scale), acc, c, depth+1)
		}
		return linForm(t.Args[0], scale, acc, c, depth+1) && linForm(t.Args[1], new(big.Rat).Neg(scale), acc, c, depth+1)
	case "*":
		if t.Args[0].Op == "realconst" {
			return linForm(t.Args[1], new(big.Rat).Mul(scale, t.Args[0].R), acc, c, depth+1)
		}
		if t.Args[1].Op == "realconst" {
			return linForm(t.Args[0], new(big.Rat).Mul(scale, t.Args[1].R), acc, c, depth+1)
		}
	case "/":
		if t.Args[1].Op == "realconst" && t.Args[1].R.Sign() != 0 {
			return linForm(t.Args[0], new(big.Rat).Quo(scale, t.Args[1].R), acc, c, depth+1)
		}
	}
	if len(acc) > 64 {
		return false
	}
	if old, ok := acc[t]; ok {
		acc[t] = new(big.Rat).Add(old, scale)
	} else {
		acc[t] = new(big.Rat).Set(scale)
	}
	return true
}

// linDiffConst: a-b is a constant (as linear forms over the same atoms).
func linDiffConst(a, b *Term) (*big.Rat, bool) {
	if a.S.K != KReal || b.S.K != KReal {
		return nil, false
	}
	acc := map[*Term]*big.Rat{}
	c := new(big.Rat)
	if !linForm(a, big.NewRat(1, 1), acc, c, 0) || !linForm(b, big.NewRat(-1, 1), acc, c, 0) {
		return nil, false
	}
	for _, k := range acc {
		if k.Sign() != 0 {
			return nil, false
		}
	}
	return c, true
}

// InexactVar is the result of an operation on the exact domain that is not
// provably exact: an unconstrained real (any behaviour of the float operation
// is admitted). Identical applications share the variable.
func (s *Store) InexactVar(op string, args ...*Term) *Term {
	// an Ackermannised application: equal arguments give equal results
	t := s.mk(&Term{Op: "ufvar", Name: "ix_" + op, S: SReal, Args: args})
	if t.ri == nil {
		t.ri = &realInfo{exact: false}
	}
	return t
}

// ---------------------------------------------------------------- values and evaluation

type Val struct {
	B bool
	U uint64
	F float64
	R *big.Rat
}

func constVal(t *Term) Val {
	switch t.Op {
	case "true":
		return Val{B: true}
	case "false":
		return Val{B: false}
	case "bvconst":
		return Val{U: t.BV}
	case "fpconst":
		return Val{F: t.F}
	case "realconst":
		return Val{R: t.R}
	}
	panic("constVal " + t.Op)
}

type Model map[string]Val

func sx(v uint64, w int) int64 {
	if w >= 64 {
		return int64(v)
	}
	sh := uint(64 - w)
	return int64(v<<sh) >> sh
}

// Eval evaluates t under m; ok=false if t contains something the evaluator
// cannot decide (UF applications, variables missing from the model).
func Eval(t *Term, m Model, cache map[*Term]Val) (Val, bool) {
	if v, ok := cache[t]; ok {
		return v, true
	}
	switch t.Op {
	case "var":
		v, ok := m[t.Name]
		if !ok {
			// a variable the solver never saw is unconstrained: any value
			// extends the model; use zero (deterministically).
			if t.S.K == KReal {
				return Val{R: new(big.Rat)}, true
			}
			return Val{}, true
		}
		if t.S.K == KReal && v.R == nil {
			return Val{}, false
		}
		return v, true
	case "uf":
		return Val{}, false
	case "ufvar":
		v, ok := m[t.ufVarName()]
		if !ok {
			return Val{}, false
		}
		return v, true
	}
	if t.IsConst() {
		return constVal(t), true
	}
	// short-circuit forms
	switch t.Op {
	case "ite":
		c, ok := Eval(t.Args[0], m, cache)
		if !ok {
			return Val{}, false
		}
		if c.B {
			return Eval(t.Args[1], m, cache)
		}
		return Eval(t.Args[2], m, cache)
	}
	vals := make([]Val, len(t.Args))
	for i, a := range t.Args {
		v, ok := Eval(a, m, cache)
		if !ok {
			return Val{}, false
		}
		vals[i] = v
	}
	v, ok := evalOp(t, func(i int) (Val, bool) { return vals[i], true })
	if ok && cache != nil {
		cache[t] = v
	}
	return v, ok
}

func evalOp(t *Term, arg func(i int) (Val, bool)) (Val, bool) {
	a := func(i int) Val { v, _ := arg(i); return v }
	w := t.S.W
	switch t.Op {
	case "not":
		return Val{B: !a(0).B}, true
	case "and":
		return Val{B: a(0).B && a(1).B}, true
	case "or":
		return Val{B: a(0).B || a(1).B}, true
	case "ite":
		if a(0).B {
			return a(1), true
		}
		return a(2), true
	case "=":
		switch t.Args[0].S.K {
		case KBool:
			return Val{B: a(0).B == a(1).B}, true
		case KBV:
			return Val{B: a(0).U == a(1).U}, true
		case KReal:
			return Val{B: a(0).R.Cmp(a(1).R) == 0}, true
		case KFP:
			x, y := a(0).F, a(1).F
			return Val{B: (x != x && y != y) || math.Float64bits(x) == math.Float64bits(y)}, true
		}
	case "bvadd":
		return Val{U: (a(0).U + a(1).U) & mask(w)}, true
	case "bvsub":
		return Val{U: (a(0).U - a(1).U) & mask(w)}, true
	case "bvmul":
		return Val{U: (a(0).U * a(1).U) & mask(w)}, true
	case "bvand":
		return Val{U: a(0).U & a(1).U}, true
	case "bvor":
		return Val{U: a(0).U | a(1).U}, true
	case "bvxor":
		return Val{U: a(0).U ^ a(1).U}, true
	case "bvnot":
		return Val{U: ^a(0).U & mask(w)}, true
	case "bvneg":
		return Val{U: (-a(0).U) & mask(w)}, true
	case "bvudiv":
		if a(1).U == 0 {
			return Val{U: mask(w)}, true
		}
		return Val{U: a(0).U / a(1).U}, true
	case "bvurem":
		if a(1).U == 0 {
			return Val{U: a(0).U}, true
		}
		return Val{U: a(0).U % a(1).U}, true
	case "bvsdiv":
		x, y := sx(a(0).U, w), sx(a(1).U, w)
		if y == 0 {
			if x >= 0 {
				return Val{U: mask(w)}, true
			}
			return Val{U: 1}, true
		}
		if y == -1 {
			return Val{U: uint64(-x) & mask(w)}, true
		}
		return Val{U: uint64(x/y) & mask(w)}, true
	case "bvsrem":
		x, y := sx(a(0).U, w), sx(a(1).U, w)
		if y == 0 {
			return Val{U: a(0).U}, true
		}
		if y == -1 {
			return Val{U: 0}, true
		}
		return Val{U: uint64(x%y) & mask(w)}, true
	case "bvshl":
		if a(1).U >= uint64(w) {
			return Val{U: 0}, true
		}
		return Val{U: (a(0).U << a(1).U) & mask(w)}, true
	case "bvlshr":
		if a(1).U >= uint64(w) {
			return Val{U: 0}, true
		}
		return Val{U: a(0).U >> a(1).U}, true
	case "bvashr":
		x := sx(a(0).U, w)
		sh := a(1).U
		if sh >= uint64(w) {
			sh = uint64(w - 1)
		}
		return Val{U: uint64(x>>sh) & mask(w)}, true
	case "bvult":
		return Val{B: a(0).U < a(1).U}, true
	case "bvule":
		return Val{B: a(0).U <= a(1).U}, true
	case "bvslt":
		ww := t.Args[0].S.W
		return Val{B: sx(a(0).U, ww) < sx(a(1).U, ww)}, true
	case "bvsle":
		ww := t.Args[0].S.W
		return Val{B: sx(a(0).U, ww) <= sx(a(1).U, ww)}, true
	case "extract":
		return Val{U: (a(0).U >> uint(t.P2)) & mask(t.P1-t.P2+1)}, true
	case "zext":
		return Val{U: a(0).U}, true
	case "sext":
		return Val{U: uint64(sx(a(0).U, t.Args[0].S.W)) & mask(w)}, true
	case "concat":
		return Val{U: (a(0).U<<uint(t.Args[1].S.W) | a(1).U) & mask(w)}, true
	case "fp_of_bv":
		return Val{F: math.Float64frombits(a(0).U)}, true
	case "fp.add":
		return Val{F: a(0).F + a(1).F}, true
	case "fp.sub":
		return Val{F: a(0).F - a(1).F}, true
	case "fp.mul":
		return Val{F: a(0).F * a(1).F}, true
	case "fp.div":
		return Val{F: a(0).F / a(1).F}, true
	case "fp.sqrt":
		return Val{F: math.Sqrt(a(0).F)}, true
	case "fp.neg":
		return Val{F: -a(0).F}, true
	case "fp.abs":
		return Val{F: math.Abs(a(0).F)}, true
	case "fp.lt":
		return Val{B: a(0).F < a(1).F}, true
	case "fp.leq":
		return Val{B: a(0).F <= a(1).F}, true
	case "fp.eq":
		return Val{B: a(0).F == a(1).F}, true
	case "fp.isNaN":
		return Val{B: a(0).F != a(0).F}, true
	case "fp.isInfinite":
		return Val{B: math.IsInf(a(0).F, 0)}, true
	case "fp.isNegative":
		return Val{B: math.Signbit(a(0).F) && a(0).F == a(0).F}, true
	case "fp.floor":
		return Val{F: math.Floor(a(0).F)}, true
	case "fp.ceil":
		return Val{F: math.Ceil(a(0).F)}, true
	case "fp.trunc":
		return Val{F: math.Trunc(a(0).F)}, true
	case "fp.round": // round half away from zero (math.Round)
		return Val{F: math.Round(a(0).F)}, true
	case "fp.roundeven":
		return Val{F: math.RoundToEven(a(0).F)}, true
	case "fp_of_sbv":
		return Val{F: float64(sx(a(0).U, t.Args[0].S.W))}, true
	case "fp_of_ubv":
		return Val{F: float64(a(0).U)}, true
	case "fp_to_sbv64": // amd64 cvttsd2sq semantics
		f := a(0).F
		if f != f || f >= 9223372036854775808.0 || f < -9223372036854775808.0 {
			return Val{U: 1 << 63}, true
		}
		return Val{U: uint64(int64(f))}, true
	case "fp_bits": // float64bits of an arbitrary fp term
		return Val{U: math.Float64bits(a(0).F)}, true
	case "+":
		return Val{R: new(big.Rat).Add(a(0).R, a(1).R)}, true
	case "-":
		if len(t.Args) == 1 {
			return Val{R: new(big.Rat).Neg(a(0).R)}, true
		}
		return Val{R: new(big.Rat).Sub(a(0).R, a(1).R)}, true
	case "*":
		return Val{R: new(big.Rat).Mul(a(0).R, a(1).R)}, true
	case "/":
		if a(1).R.Sign() == 0 {
			return Val{}, false
		}
		return Val{R: new(big.Rat).Quo(a(0).R, a(1).R)}, true
	case "<":
		return Val{B: a(0).R.Cmp(a(1).R) < 0}, true
	case "<=":
		return Val{B: a(0).R.Cmp(a(1).R) <= 0}, true
	case "real_of_sbv":
		return Val{R: new(big.Rat).SetInt64(sx(a(0).U, t.Args[0].S.W))}, true
	case "real_of_ubv":
		return Val{R: new(big.Rat).SetInt(new(big.Int).SetUint64(a(0).U))}, true
	case "real_to_sbv64": // truncation toward zero of an integral-or-not real
		r := a(0).R
		q := new(big.Int).Quo(r.Num(), r.Denom()) // truncates toward zero
		if !q.IsInt64() {
			return Val{U: 1 << 63}, true
		}
		return Val{U: uint64(q.Int64())}, true
	}
	return Val{}, false
}

// ---------------------------------------------------------------- printing

func bvLit(v uint64, w int) string {
	if w%4 == 0 {
		return fmt.Sprintf("#x%0*x", w/4, v)
	}
	return fmt.Sprintf("#b%0*b", w, v)
}

func fpLit(f float64) string {
	b := math.Float64bits(f)
	if f != f {
		return "(_ NaN 11 53)"
	}
	return fmt.Sprintf("(fp #b%b #b%011b #b%052b)", b>>63, (b>>52)&0x7ff, b&((1<<52)-1))
}

func realLit(r *big.Rat) string {
	neg := r.Sign() < 0
	a := new(big.Rat).Abs(r)
	var s string
	if a.IsInt() {
		s = a.Num().String() + ".0"
	} else {
		s = "(/ " + a.Num().String() + ".0 " + a.Denom().String() + ".0)"
	}
	if neg {
		return "(- " + s + ")"
	}
	return s
}

// Script renders declarations + definitions + assertions for the given
// boolean terms. intVars: declare IntVar reals as Int (witness search).
type Script struct {
	Text    string
	UFVars  []*Term
	Vars    []*Term
	HasUF   bool
	HasReal bool
	HasFP   bool
	HasBV   bool
	NonLin  bool
}

func smtName(n string) string {
	return "|" + n + "|"
}

func BuildScript(asserts []*Term, intVars bool) *Script {
	sc := &Script{}
	var sb strings.Builder
	seen := map[*Term]bool{}
	refs := map[*Term]int{}
	var order []*Term
	var visit func(t *Term)
	visit = func(t *Term) {
		refs[t]++
		if seen[t] {
			return
		}
		seen[t] = true
		for _, a := range t.Args {
			visit(a)
		}
		order = append(order, t)
	}
	for _, a := range asserts {
		visit(a)
	}
	ufs := map[string]*Term{}
	for _, t := range order {
		switch t.S.K {
		case KReal:
			sc.HasReal = true
		case KFP:
			sc.HasFP = true
		case KBV:
			sc.HasBV = true
		}
		switch t.Op {
		case "var":
			sc.Vars = append(sc.Vars, t)
		case "ufvar":
			sc.UFVars = append(sc.UFVars, t)
			sc.HasUF = true
		case "uf":
			sc.HasUF = true
			if _, ok := ufs[t.Name]; !ok {
				ufs[t.Name] = t
			}
		case "*":
			if !t.Args[0].IsConst() && !t.Args[1].IsConst() {
				sc.NonLin = true
			}
		case "/":
			if !t.Args[1].IsConst() {
				sc.NonLin = true
			}
		}
	}
	sort.Slice(sc.Vars, func(i, j int) bool { return sc.Vars[i].Name < sc.Vars[j].Name })
	for _, v := range sc.Vars {
		so := v.S.smt()
		if intVars && v.IntVar {
			so = "Int"
		}
		fmt.Fprintf(&sb, "(declare-const %s %s)\n", smtName(v.Name), so)
	}
	for _, v := range sc.UFVars {
		fmt.Fprintf(&sb, "(declare-const %s %s)\n", smtName(v.ufVarName()), v.S.smt())
	}
	ufNames := make([]string, 0, len(ufs))
	for n := range ufs {
		ufNames = append(ufNames, n)
	}
	sort.Strings(ufNames)
	for _, n := range ufNames {
		t := ufs[n]
		var as []string
		for _, a := range t.Args {
			as = append(as, a.S.smt())
		}
		fmt.Fprintf(&sb, "(declare-fun %s (%s) %s)\n", smtName(n), strings.Join(as, " "), t.S.smt())
	}
	// bounds of lattice vars
	for _, v := range sc.Vars {
		if v.S.K == KReal && v.ri != nil && v.ri.lo != nil {
			nm := smtName(v.Name)
			if intVars && v.IntVar {
				fmt.Fprintf(&sb, "(assert (and (<= %s %s) (<= %s %s)))\n",
					intLit(v.ri.lo), nm, nm, intLit(v.ri.hi))
			} else {
				fmt.Fprintf(&sb, "(assert (and (<= %s %s) (<= %s %s)))\n",
					realLit(v.ri.lo), nm, nm, realLit(v.ri.hi))
			}
		}
	}
	names := map[*Term]string{}
	var expr func(t *Term) string
	ref := func(t *Term) string {
		if n, ok := names[t]; ok {
			return n
		}
		return expr(t)
	}
	expr = func(t *Term) string {
		switch t.Op {
		case "var":
			if intVars && t.IntVar {
				return "(to_real " + smtName(t.Name) + ")"
			}
			return smtName(t.Name)
		case "ufvar":
			return smtName(t.ufVarName())
		case "true", "false":
			return t.Op
		case "bvconst":
			return bvLit(t.BV, t.S.W)
		case "fpconst":
			return fpLit(t.F)
		case "realconst":
			return realLit(t.R)
		}
		as := make([]string, len(t.Args))
		for i, a := range t.Args {
			as[i] = ref(a)
		}
		j := strings.Join(as, " ")
		switch t.Op {
		case "uf":
			return "(" + smtName(t.Name) + " " + j + ")"
		case "extract":
			return fmt.Sprintf("((_ extract %d %d) %s)", t.P1, t.P2, j)
		case "zext":
			return fmt.Sprintf("((_ zero_extend %d) %s)", t.P1, j)
		case "sext":
			return fmt.Sprintf("((_ sign_extend %d) %s)", t.P1, j)
		case "fp_of_bv":
			return "((_ to_fp 11 53) " + j + ")"
		case "fp.add", "fp.sub", "fp.mul", "fp.div":
			return "(" + t.Op + " RNE " + j + ")"
		case "fp.sqrt":
			return "(fp.sqrt RNE " + j + ")"
		case "fp.floor":
			return "(fp.roundToIntegral RTN " + j + ")"
		case "fp.ceil":
			return "(fp.roundToIntegral RTP " + j + ")"
		case "fp.trunc":
			return "(fp.roundToIntegral RTZ " + j + ")"
		case "fp.round":
			return "(fp.roundToIntegral RNA " + j + ")"
		case "fp.roundeven":
			return "(fp.roundToIntegral RNE " + j + ")"
		case "fp_of_sbv":
			return "((_ to_fp 11 53) RNE " + j + ")"
		case "fp_of_ubv":
			return "((_ to_fp_unsigned 11 53) RNE " + j + ")"
		case "fp_to_sbv64":
			x := as[0]
			return "(ite (or (fp.isNaN " + x + ") (fp.geq " + x + " " + fpLit(9223372036854775808.0) + ") (fp.lt " + x + " " + fpLit(-9223372036854775808.0) + ")) #x8000000000000000 ((_ fp.to_sbv 64) RTZ " + x + "))"
		case "real_of_sbv", "real_of_ubv", "real_to_sbv64", "fp_bits":
			panic("unprintable op " + t.Op + " (must be eliminated by the interpreter)")
		}
		return "(" + t.Op + " " + j + ")"
	}
	n := 0
	for _, t := range order {
		if len(t.Args) == 0 || t.Op == "ufvar" {
			continue
		}
		if refs[t] > 1 || len(t.Args) > 0 && termDepthGE(t, 6) {
			e := expr(t)
			n++
			nm := fmt.Sprintf("t!%d", t.id)
			fmt.Fprintf(&sb, "(define-fun %s () %s %s)\n", nm, t.S.smt(), e)
			names[t] = nm
		}
	}
	// congruence between applications of the same function
	for x := 0; x < len(sc.UFVars); x++ {
		for y := x + 1; y < len(sc.UFVars); y++ {
			a, b := sc.UFVars[x], sc.UFVars[y]
			if a.Name != b.Name || len(a.Args) != len(b.Args) || a.S != b.S {
				continue
			}
			eqs := func(perm []int) string {
				var parts []string
				for k := range a.Args {
					parts = append(parts, "(= "+ref(a.Args[k])+" "+ref(b.Args[perm[k]])+")")
				}
				if len(parts) == 1 {
					return parts[0]
				}
				return "(and " + strings.Join(parts, " ") + ")"
			}
			ra, rb := smtName(a.ufVarName()), smtName(b.ufVarName())
			id := make([]int, len(a.Args))
			for k := range id {
				id[k] = k
			}
			fmt.Fprintf(&sb, "(assert (=> %s (= %s %s)))\n", eqs(id), ra, rb)
			if (a.Name == "fmul" || a.Name == "ix_*" || a.Name == "ix_+") && len(a.Args) == 2 {
				fmt.Fprintf(&sb, "(assert (=> %s (= %s %s)))\n", eqs([]int{1, 0}), ra, rb)
			}
			// monotonicity of the correctly rounded operations (IEEE 754):
			// conversions and roundings are monotone; x*s and x/s are monotone
			// in x for a common positive s.
			a1, b1 := ref(a.Args[0]), ref(b.Args[0])
			switch a.Name {
			case "i2f_s":
				fmt.Fprintf(&sb, "(assert (=> (bvsle %s %s) (fp.leq %s %s)))\n", a1, b1, ra, rb)
				fmt.Fprintf(&sb, "(assert (=> (bvsle %s %s) (fp.leq %s %s)))\n", b1, a1, rb, ra)
			case "i2f_u":
				fmt.Fprintf(&sb, "(assert (=> (bvule %s %s) (fp.leq %s %s)))\n", a1, b1, ra, rb)
				fmt.Fprintf(&sb, "(assert (=> (bvule %s %s) (fp.leq %s %s)))\n", b1, a1, rb, ra)
			case "ufp.round", "ufp.floor", "ufp.ceil", "ufp.trunc":
				fmt.Fprintf(&sb, "(assert (=> (fp.leq %s %s) (fp.leq %s %s)))\n", a1, b1, ra, rb)
				fmt.Fprintf(&sb, "(assert (=> (fp.leq %s %s) (fp.leq %s %s)))\n", b1, a1, rb, ra)
			case "fdiv", "fmul":
				if len(a.Args) == 2 {
					a2, b2 := ref(a.Args[1]), ref(b.Args[1])
					pos := "(and (= " + a2 + " " + b2 + ") (fp.lt " + fpLit(0) + " " + a2 + ") (not (fp.isInfinite " + a2 + ")))"
					fmt.Fprintf(&sb, "(assert (=> (and %s (fp.leq %s %s)) (fp.leq %s %s)))\n", pos, a1, b1, ra, rb)
					fmt.Fprintf(&sb, "(assert (=> (and %s (fp.leq %s %s)) (fp.leq %s %s)))\n", pos, b1, a1, rb, ra)
					if a.Name == "fmul" {
						pos1 := "(and (= " + a1 + " " + b1 + ") (fp.lt " + fpLit(0) + " " + a1 + ") (not (fp.isInfinite " + a1 + ")))"
						fmt.Fprintf(&sb, "(assert (=> (and %s (fp.leq %s %s)) (fp.leq %s %s)))\n", pos1, a2, b2, ra, rb)
						fmt.Fprintf(&sb, "(assert (=> (and %s (fp.leq %s %s)) (fp.leq %s %s)))\n", pos1, b2, a2, rb, ra)
					}
				}
			}
		}
	}
	for _, a := range asserts {
		fmt.Fprintf(&sb, "(assert %s)\n", ref(a))
	}
	sc.Text = sb.String()
	return sc
}

func intLit(r *big.Rat) string {
	// bounds are integers for lattice vars
	n := new(big.Int).Quo(r.Num(), r.Denom())
	if n.Sign() < 0 {
		return "(- " + new(big.Int).Neg(n).String() + ")"
	}
	return n.String()
}

// termDepthGE reports whether t has depth >= d without exploring below d.
func termDepthGE(t *Term, d int) bool {
	if d <= 0 {
		return true
	}
	for _, a := range t.Args {
		if termDepthGE(a, d-1) {
			return true
		}
	}
	return false
}

func (t *Term) String() string {
	sc := BuildScript([]*Term{t}, false)
	_ = sc
	var f func(t *Term, d int) string
	f = func(t *Term, d int) string {
		switch t.Op {
		case "var":
			return t.Name
		case "true", "false":
			return t.Op
		case "bvconst":
			return bvLit(t.BV, t.S.W)
		case "fpconst":
			return strconv.FormatFloat(t.F, 'g', -1, 64)
		case "realconst":
			return t.R.RatString()
		}
		if d > 8 {
			return "…"
		}
		var as []string
		for _, a := range t.Args {
			as = append(as, f(a, d+1))
		}
		op := t.Op
		if op == "uf" || op == "ufvar" {
			op = t.Name
		}
		if op == "extract" {
			op = fmt.Sprintf("extract[%d:%d]", t.P1, t.P2)
		}
		return "(" + op + " " + strings.Join(as, " ") + ")"
	}
	return f(t, 0)
}

var _ = bits.Len
