//go:build verif

package rtree

import (
	"errors"
	"fmt"
	"math"
)

func init() {
	vfHarnesses["C11_priority_reentrant"] = vfhC11PriorityReentrant
	vfHarnesses["C11_stop_deep"] = vfhC11StopDeep
	vfHarnesses["C11_stop_deep_full"] = vfhC11StopDeepFull
	vfHarnesses["C11_box_lemmas"] = vfhC11BoxLemmas
	vfHarnesses["C11_range_search"] = vfhC11RangeSearch
	vfHarnesses["C11_range_search_5"] = vfhC11RangeSearch5
	vfHarnesses["C11_stop_two_level"] = vfhC11StopTwoLevel
	vfHarnesses["C11_priority_search"] = vfhC11PrioritySearch
	vfHarnesses["C11_priority_order"] = vfhC11PriorityOrder
	vfHarnesses["C11_priority_order_5"] = vfhC11PriorityOrder5
	vfHarnesses["C11_bulk_shape"] = vfhC11BulkShape
}

// vfBox: an arbitrary box of non-NaN floats with min <= max on both axes
// (degenerate boxes, infinities and signed zeros included).
func vfBox(name string) Box {
	b := Box{vfFloat64(name + ".minx"), vfFloat64(name + ".miny"), vfFloat64(name + ".maxx"), vfFloat64(name + ".maxy")}
	vfAssume(!vfOr(vfOr(math.IsNaN(b.MinX), math.IsNaN(b.MinY)), vfOr(math.IsNaN(b.MaxX), math.IsNaN(b.MaxY))))
	vfAssume(vfAnd(b.MinX <= b.MaxX, b.MinY <= b.MaxY))
	return b
}

// vfBoxL: a box with integer ordinates |c| <= 2^10 (decided over the real
// relaxation, i.e. for every order type of the ordinates).
func vfBoxL(name string) Box {
	b := Box{vfLattice(name+".minx", 10), vfLattice(name+".miny", 10), vfLattice(name+".maxx", 10), vfLattice(name+".maxy", 10)}
	vfAssume(vfAnd(b.MinX <= b.MaxX, b.MinY <= b.MaxY))
	return b
}

// closed-interval definition: the boxes share at least one point
func vfMeets(a, b Box) bool {
	return !vfOr(vfOr(a.MaxX < b.MinX, b.MaxX < a.MinX), vfOr(a.MaxY < b.MinY, b.MaxY < a.MinY))
}

func vfContainsBox(outer, inner Box) bool {
	return vfAnd(vfAnd(outer.MinX <= inner.MinX, outer.MinY <= inner.MinY), vfAnd(outer.MaxX >= inner.MaxX, outer.MaxY >= inner.MaxY))
}

// Lemmas (all non-NaN floats): overlap is the closed-interval test; combine is
// the join; pruning by a parent box is complete.
func vfhC11BoxLemmas() {
	a, b, q := vfBox("a"), vfBox("b"), vfBox("q")
	vfAssert(overlap(a, q) == vfMeets(a, q), "overlap is the closed interval test")
	vfAssert(overlap(a, q) == overlap(q, a), "overlap is symmetric")
	c := combine(a, b)
	vfAssert(vfAnd(vfContainsBox(c, a), vfContainsBox(c, b)), "combine contains both operands")
	vfAssert(vfAnd(vfAnd(vfOr(c.MinX == a.MinX, c.MinX == b.MinX), vfOr(c.MaxX == a.MaxX, c.MaxX == b.MaxX)),
		vfAnd(vfOr(c.MinY == a.MinY, c.MinY == b.MinY), vfOr(c.MaxY == a.MaxY, c.MaxY == b.MaxY))), "combine is tight")
	if overlap(a, q) {
		vfAssert(overlap(c, q), "a child hit implies a parent hit (pruning is complete)")
		vfReach("hit")
	}
	vfReach("end")
}

var vfErrOther = errors.New("other")

// C11: BulkLoad + RangeSearch against a linear scan, with a scripted callback.
func vfhC11RangeSearch()  { vfRangeSearch(vfInt("n", 0, 4)) }
func vfhC11RangeSearch5() { vfRangeSearch(vfInt("n", 5, 5)) }

func vfRangeSearch(n int) {
	orig := make([]BulkItem, n)
	base := vfInt("id-base", -3, 1) // record ids are arbitrary ints: negative ones too
	for i := range orig {
		orig[i] = BulkItem{Box: vfBoxL("b"), RecordID: base + i}
	}
	q := vfBoxL("q")
	items := make([]BulkItem, n)
	copy(items, orig)
	t := BulkLoad(items)
	vfAssert(t.Count() == n, "Count")
	ext, ok := t.Extent()
	vfAssert(ok == (n > 0), "Extent flag")
	if n > 0 {
		for i := range orig {
			vfAssert(vfContainsBox(ext, orig[i].Box), "Extent contains every box")
		}
		tightMinX, tightMaxX, tightMinY, tightMaxY := false, false, false, false
		for i := range orig {
			tightMinX = vfOr(tightMinX, ext.MinX == orig[i].Box.MinX)
			tightMaxX = vfOr(tightMaxX, ext.MaxX == orig[i].Box.MaxX)
			tightMinY = vfOr(tightMinY, ext.MinY == orig[i].Box.MinY)
			tightMaxY = vfOr(tightMaxY, ext.MaxY == orig[i].Box.MaxY)
		}
		vfAssert(vfAnd(vfAnd(tightMinX, tightMaxX), vfAnd(tightMinY, tightMaxY)), "Extent is tight")
	}

	seen := make([]int, n)
	stopped := false
	how := 0
	err := t.RangeSearch(q, func(id int) error {
		vfAssert(!stopped, "callback invoked again after it returned Stop or an error")
		id -= base
		vfAssert(id >= 0 && id < n, "record id is one of the loaded ids")
		seen[id]++
		how = vfInt("cb", 0, 3)
		switch how {
		case 1:
			stopped = true
			return Stop
		case 2:
			stopped = true
			return fmt.Errorf("wrapped: %w", Stop)
		case 3:
			stopped = true
			return vfErrOther
		}
		return nil
	})
	for i := range orig {
		hit := vfMeets(orig[i].Box, q)
		if stopped {
			vfAssert(seen[i] <= 1, "at most once")
			vfAssert(seen[i] == 0 || hit, "only records whose box meets the query")
		} else if hit {
			vfAssert(seen[i] == 1, "every record whose box meets the query exactly once")
		} else {
			vfAssert(seen[i] == 0, "no record whose box misses the query")
		}
	}
	switch {
	case !stopped, how == 1, how == 2:
		vfAssert(err == nil, "nil after completion, Stop or wrapped Stop")
	default:
		vfAssert(err == vfErrOther, "other errors are returned unchanged")
		vfReach("other-error")
	}
	if stopped {
		vfReach("stopped")
	}
	vfReach("end")
}

var vfShapeN = 6

// C11 lemma: structural invariants of the bulk-loaded tree.
func vfhC11BulkShape() {
	n := vfInt("n", 1, vfShapeN)
	items := make([]BulkItem, n)
	for i := range items {
		items[i] = BulkItem{Box: vfBoxL("b"), RecordID: i}
	}
	t := BulkLoad(items)
	seen := make([]int, n)
	var walk func(nd *node, isRoot bool) (Box, int)
	walk = func(nd *node, isRoot bool) (Box, int) {
		vfAssert(nd.numEntries >= 1 && nd.numEntries <= maxEntries, "entry count in 1..4")
		leaf := nd.entries[0].child == nil
		depth := 0
		for i := 0; i < nd.numEntries; i++ {
			e := nd.entries[i]
			vfAssert((e.child == nil) == leaf, "leaves and branches are not mixed")
			if e.child == nil {
				seen[e.recordID]++
			} else {
				cb, d := walk(e.child, false)
				vfAssert(cb == e.box, "parent box is the exact bound of its child")
				vfAssert(i == 0 || d == depth, "all leaves at the same depth")
				depth = d
			}
		}
		return calculateBound(nd), depth + 1
	}
	walk(t.root, true)
	for i := range seen {
		vfAssert(seen[i] == 1, "every record in exactly one leaf")
	}
	vfReach("end")
}

// C11: a two-level tree (5 or 6 records); the callback returns Stop (plain or
// wrapped) at the k-th invocation, k symbolic: it is never invoked again and
// the search returns nil.
func vfhC11StopTwoLevel() {
	n := vfInt("n", 5, 6)
	items := make([]BulkItem, n)
	for i := range items {
		// boxes in a row: Y extent fixed, X centres strictly increasing (this
		// pins the partition order; the general layout is C11_range_search_5)
		b := Box{MinX: vfLattice("minx", 10), MinY: 0, MaxX: vfLattice("maxx", 10), MaxY: 1}
		vfAssume(b.MinX <= b.MaxX)
		if i > 0 {
			p := items[i-1].Box
			vfAssume(p.MinX+p.MaxX < b.MinX+b.MaxX)
		}
		items[i] = BulkItem{Box: b, RecordID: i}
	}
	q := vfBoxL("q")
	t := BulkLoad(items)
	k := vfInt("k", 0, 5)
	wrapped := vfBool("wrapped")
	calls := 0
	stopped := false
	err := t.RangeSearch(q, func(id int) error {
		vfAssert(!stopped, "callback invoked again after it returned Stop")
		if calls == k {
			stopped = true
			if wrapped {
				return fmt.Errorf("wrapped: %w", Stop)
			}
			return Stop
		}
		calls++
		return nil
	})
	vfAssert(err == nil, "Stop surfaces as nil")
	if stopped {
		vfReach("stopped")
	}
	vfReach("end")
}

// C11: PrioritySearch / Nearest on a single-leaf tree (n <= 3) with a scripted
// callback: every record exactly once until the first non-nil return, never
// again afterwards; Stop and wrapped Stop give nil, other errors are returned
// unchanged; Nearest reports emptiness correctly.
func vfhC11PrioritySearch() {
	n := vfInt("n", 0, 3)
	base := vfInt("id-base", -2, 0) // record ids are arbitrary ints: negative ones too
	items := make([]BulkItem, n)
	for i := range items {
		items[i] = BulkItem{Box: vfBoxL("b"), RecordID: base + i}
	}
	q := vfBoxL("q")
	t := BulkLoad(items)
	seen := make([]int, n)
	stopped := false
	how := 0
	err := t.PrioritySearch(q, func(id int) error {
		vfAssert(!stopped, "callback invoked again after it returned Stop or an error")
		id -= base
		vfAssert(id >= 0 && id < n, "record id is one of the loaded ids")
		seen[id]++
		how = vfInt("cb", 0, 3)
		switch how {
		case 1:
			stopped = true
			return Stop
		case 2:
			stopped = true
			return fmt.Errorf("wrapped: %w", Stop)
		case 3:
			stopped = true
			return vfErrOther
		}
		return nil
	})
	for i := range seen {
		if stopped {
			vfAssert(seen[i] <= 1, "at most once")
		} else {
			vfAssert(seen[i] == 1, "every record exactly once")
		}
	}
	switch {
	case !stopped, how == 1, how == 2:
		vfAssert(err == nil, "nil after completion, Stop or wrapped Stop")
	default:
		vfAssert(err == vfErrOther, "other errors are returned unchanged")
		vfReach("other-error")
	}
	if stopped {
		vfReach("stopped")
	}
	nid, found := t.Nearest(q)
	vfAssert(found == (n > 0), "Nearest reports an empty tree exactly when there is no record")
	vfAssert(!found || (nid-base >= 0 && nid-base < n), "Nearest returns a loaded id")
	vfReach("end")
}

func vfGap(lo1, hi1, lo2, hi2 float64) float64 {
	// distance between the closed intervals [lo1,hi1] and [lo2,hi2]
	if hi1 < lo2 {
		return lo2 - hi1
	}
	if hi2 < lo1 {
		return lo1 - hi2
	}
	return 0
}

// vfSqDist: the exact squared Euclidean distance between two boxes.
func vfSqDist(a, b Box) float64 {
	dx := vfGap(a.MinX, a.MaxX, b.MinX, b.MaxX)
	dy := vfGap(a.MinY, a.MaxY, b.MinY, b.MaxY)
	return dx*dx + dy*dy
}

// C11: PrioritySearch visits every record exactly once in non-decreasing
// order of box-to-box distance; Nearest returns a record at minimum distance.
func vfhC11PriorityOrder()  { vfPriorityOrder(vfInt("n", 1, 4)) }
func vfhC11PriorityOrder5() { vfPriorityOrder(5) }

func vfPriorityOrder(n int) {
	items := make([]BulkItem, n)
	boxes := make([]Box, n)
	for i := range items {
		boxes[i] = vfBoxL("b")
		items[i] = BulkItem{Box: boxes[i], RecordID: i}
	}
	q := vfBoxL("q")
	t := BulkLoad(items)
	seen := make([]int, n)
	last := float64(-1)
	ordered := true
	_ = t.PrioritySearch(q, func(id int) error {
		seen[id]++
		d := vfSqDist(boxes[id], q)
		ordered = vfAnd(ordered, last <= d)
		last = d
		return nil
	})
	vfAssert(ordered, "records are visited in non-decreasing order of distance")
	for i := range seen {
		vfAssert(seen[i] == 1, "every record exactly once")
	}
	id, found := t.Nearest(q)
	vfAssert(found, "Nearest finds a record")
	dn := vfSqDist(boxes[id], q)
	for i := range boxes {
		vfAssert(dn <= vfSqDist(boxes[i], q), "Nearest is at the minimum distance")
	}
	vfReach("end")
}

// C11: trees of three and four levels (17..70 records on a concrete grid); the
// query box is symbolic, the callback returns
// Stop (plain or wrapped) or another error at the k-th invocation, k symbolic:
// the callback is never invoked again, Stop surfaces as nil and the other error
// is returned unchanged; without an early return exactly the records whose boxes
// intersect the query are visited, each once.
func vfhC11StopDeep()     { vfStopDeep(2, 5) }
func vfhC11StopDeepFull() { vfStopDeep(3, 8) }

func vfStopDeep(maxSize, maxK int) {
	var n int
	switch vfInt("size", 0, maxSize) {
	case 0:
		n = 17
	case 1:
		n = 18
	case 2:
		n = 33
	default:
		n = 70
	}
	boxes := make([]Box, n)
	for i := range boxes {
		x, y := float64(i%9)*2, float64(i/9)*2
		boxes[i] = Box{MinX: x, MinY: y, MaxX: x + 1, MaxY: y + 1}
	}
	items := make([]BulkItem, n)
	for i, b := range boxes {
		items[i] = BulkItem{Box: b, RecordID: i}
	}
	t := BulkLoad(items)
	// query: a lattice box (real relaxation); which records it meets is decided per record
	q := Box{MinX: vfLattice("q.minx", 5), MinY: vfLattice("q.miny", 5), MaxX: vfLattice("q.maxx", 5), MaxY: vfLattice("q.maxy", 5)}
	vfAssume(q.MinX <= q.MaxX && q.MinY <= q.MaxY)
	k := vfInt("k", 0, maxK)
	mode := vfInt("mode", 0, 2) // 0: Stop, 1: wrapped Stop, 2: another error
	other := errors.New("other")
	calls := 0
	done := false
	seen := make([]bool, n)
	err := t.RangeSearch(q, func(id int) error {
		vfAssert(!done, "callback invoked again after it returned an error")
		vfAssert(id >= 0 && id < n && !seen[id], "each record at most once")
		seen[id] = true
		b := boxes[id]
		vfAssert(b.MinX <= q.MaxX && q.MinX <= b.MaxX && b.MinY <= q.MaxY && q.MinY <= b.MaxY, "only records whose box meets the query")
		if calls == k {
			done = true
			switch mode {
			case 0:
				return Stop
			case 1:
				return fmt.Errorf("wrapped: %w", Stop)
			default:
				return other
			}
		}
		calls++
		return nil
	})
	if done && mode == 2 {
		vfAssert(err == other, "a callback error is returned unchanged")
	} else {
		vfAssert(err == nil, "Stop (plain or wrapped) and completion surface as nil")
	}
	if !done {
		for i, b := range boxes {
			meets := b.MinX <= q.MaxX && q.MinX <= b.MaxX && b.MinY <= q.MaxY && q.MinY <= b.MaxY
			vfAssert(seen[i] == meets, "without an early return every record meeting the query is visited")
		}
		vfReach("complete")
	} else {
		vfReach("stopped")
	}
	vfReach("end")
}

// C11: a search may be started from inside the callback of another search on
// the same tree (after earlier searches have completed): the outer search still
// visits every record exactly once.
func vfhC11PriorityReentrant() {
	var n int
	switch vfInt("size", 0, 2) {
	case 0:
		n = 3
	case 1:
		n = 6
	default:
		n = 20
	}
	items := make([]BulkItem, n)
	for i := range items {
		x, y := float64(i%5)*3, float64(i/5)*3
		items[i] = BulkItem{Box: Box{MinX: x, MinY: y, MaxX: x + 1, MaxY: y + 1}, RecordID: i}
	}
	qxs := []float64{-2, 0, 4, 7, 13}
	qx := qxs[vfInt("q", 0, len(qxs)-1)]
	boxes := make([]Box, n) // BulkLoad permutes its argument
	for i := range items {
		boxes[i] = items[i].Box
	}
	q := Box{MinX: qx, MinY: -1, MaxX: qx, MaxY: -1}
	q2 := Box{MinX: 20, MinY: 20, MaxX: 21, MaxY: 21}
	t := BulkLoad(items)
	// earlier, completed searches
	_ = t.PrioritySearch(q2, func(int) error { return nil })
	_, _ = t.Nearest(q)
	seen := make([]int, n)
	var order []int
	err := t.PrioritySearch(q, func(id int) error {
		vfAssert(id >= 0 && id < n, "record id is one of the loaded ids")
		seen[id]++
		order = append(order, id)
		// a nested query on the same tree
		nid, found := t.Nearest(q2)
		vfAssert(found && nid >= 0 && nid < n, "the nested query finds a record")
		inner := 0
		_ = t.PrioritySearch(q2, func(int) error { inner++; return nil })
		vfAssert(inner == n, "the nested search visits every record")
		return nil
	})
	vfAssert(err == nil, "no error")
	for i := range seen {
		vfAssert(seen[i] == 1, "the outer search visits every record exactly once despite the nested searches")
	}
	for k := 0; k+1 < len(order); k++ {
		vfAssert(vfSqDist(boxes[order[k]], q) <= vfSqDist(boxes[order[k+1]], q), "and in non-decreasing order of distance")
	}
	vfReach("end")
}
