//go:build verif

package rtree

func init() {
	vfHarnesses["C10_rtree_frozen"] = vfhC10RTreeFrozen
}

// Searches on a frozen bulk-loaded tree write nothing into it.
func vfhC10RTreeFrozen() {
	n := 3
	items := make([]BulkItem, n)
	for i := range items {
		items[i] = BulkItem{Box: vfBoxL("b"), RecordID: i}
	}
	q := vfBoxL("q")
	t := BulkLoad(items)
	vfFreeze(t)
	hits := 0
	_ = t.RangeSearch(q, func(int) error { hits++; return nil })
	_, _ = t.Extent()
	_ = t.Count()
	_, found := t.Nearest(q)
	vfAssert(found, "Nearest finds a record in a non-empty tree")
	seen := 0
	_ = t.PrioritySearch(q, func(int) error { seen++; return nil })
	vfAssert(seen == n, "PrioritySearch visits every record")
	vfReach("end")
}
