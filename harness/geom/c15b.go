//go:build verif

package geom

func init() {
	vfHarnesses["C15_shapes"] = vfhC15Shapes
}

// Boundary and PointOnSurface on every concrete operand of the C01/C02/C09 shape
// tables: Boundary(g) is, as a point set, exactly the OGC boundary of g (rings
// of areal parts, mod-2 end points of lineal parts, nothing for points) - for
// every real location; PointOnSurface(g) lies in the interior of an areal g, on
// a lineal g, at a point of a puntal g, and in a member of the highest
// non-empty dimension of a collection.
func vfhC15Shapes() {
	all := append(append(append([][2]string{}, vfC01Shapes...), vfC02Shapes...), vfC09Extra...)
	k := vfInt("case", 0, len(all)-1)
	side := 0
	if vfBool("second") {
		side = 1
	}
	g, err := UnmarshalWKT(all[k][side])
	vfAssert(err == nil, "operand parses")
	if !g.IsGeometryCollection() {
		bd := g.Boundary()
		vfAssert(bd.Validate() == nil, "the boundary is a valid geometry")
		vfAssert(bd.IsEmpty() || bd.Dimension() == g.Dimension()-1, "the boundary has one dimension less")
		p := XY{vfLattice("p.x", 5), vfLattice("p.y", 5)}
		inBd, _ := vfLocIn(bd, p)
		_, want := vfLoc3(g, p)
		vfAssert(inBd == want, "p in Boundary(g) iff p is on the OGC boundary of g")
		bb := bd.Boundary()
		if g.Dimension() == 2 {
			vfAssert(bb.IsEmpty(), "the boundary of an areal boundary (closed rings) is empty")
		}
		vfReach("boundary")
	}
	pos := g.PointOnSurface()
	q, ok := pos.XY()
	vfAssert(ok == !g.IsEmpty(), "PointOnSurface is empty iff g is empty")
	if ok {
		in, strict := vfLocIn(g, q)
		vfAssert(in, "PointOnSurface lies in g")
		switch highestDimensionIgnoreEmpties(g) {
		case 2:
			vfAssert(strict, "for an areal g it lies strictly inside an areal part")
		case 1:
			// on a lineal member
			onLine := false
			var walk func(Geometry)
			walk = func(h Geometry) {
				switch {
				case h.IsGeometryCollection():
					c := h.MustAsGeometryCollection()
					for i := 0; i < c.NumGeometries(); i++ {
						walk(c.GeometryN(i))
					}
				case h.Dimension() == 1 && !h.IsEmpty():
					a, _ := vfLocIn(h, q)
					onLine = onLine || a
				}
			}
			walk(g)
			vfAssert(onLine, "for a lineal g (or a collection whose highest dimension is 1) it lies on a line")
		}
		vfReach("pos")
	}
	vfReach("end")
}
