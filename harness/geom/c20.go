//go:build verif

package geom

func init() {
	vfHarnesses["C20_relate_transparency"] = vfhC20RelateTransparency
	vfHarnesses["C20_unary_on_empties"] = vfhC20UnaryOnEmpties
	vfHarnesses["C20_binary_on_empties"] = vfhC20BinaryOnEmpties
	vfHarnesses["C20_transparency"] = vfhC20Transparency
	vfHarnesses["C20_zero_values"] = vfhC20ZeroValues
	vfHarnesses["C20_measure_transparency"] = vfhC20MeasureTransparency
	vfHarnesses["C14_collection_measures"] = vfhC20MeasureTransparency
}

const vfNumEmpties = 13

// vfEmpty: the k-th empty geometry of the catalogue (zero values, typed
// empties of coordinate type ct, collections of empties).
func vfEmpty(k int, ct CoordinatesType) Geometry {
	switch k {
	case 0:
		return Geometry{}
	case 1:
		return NewEmptyPoint(ct).AsGeometry()
	case 2:
		return LineString{}.ForceCoordinatesType(ct).AsGeometry()
	case 3:
		return Polygon{}.ForceCoordinatesType(ct).AsGeometry()
	case 4:
		return MultiPoint{}.ForceCoordinatesType(ct).AsGeometry()
	case 5:
		return MultiLineString{}.ForceCoordinatesType(ct).AsGeometry()
	case 6:
		return MultiPolygon{}.ForceCoordinatesType(ct).AsGeometry()
	case 7:
		return GeometryCollection{}.ForceCoordinatesType(ct).AsGeometry()
	case 8:
		return NewMultiPoint([]Point{NewEmptyPoint(ct), NewEmptyPoint(ct)}).AsGeometry()
	case 9:
		return NewMultiLineString([]LineString{LineString{}.ForceCoordinatesType(ct)}).AsGeometry()
	case 10:
		return NewMultiPolygon([]Polygon{Polygon{}.ForceCoordinatesType(ct), Polygon{}.ForceCoordinatesType(ct)}).AsGeometry()
	case 11:
		return NewGeometryCollection([]Geometry{NewEmptyPoint(ct).AsGeometry(), LineString{}.ForceCoordinatesType(ct).AsGeometry(), Polygon{}.ForceCoordinatesType(ct).AsGeometry()}).AsGeometry()
	default:
		return NewGeometryCollection([]Geometry{GeometryCollection{}.ForceCoordinatesType(ct).AsGeometry(), MultiPoint{}.ForceCoordinatesType(ct).AsGeometry()}).AsGeometry()
	}
}

// Every unary operation accepts every empty geometry and gives the neutral answer.
func vfhC20UnaryOnEmpties() {
	ct := vfCT("ct")
	g := vfEmpty(vfInt("kind", 0, vfNumEmpties-1), ct)
	vfAssert(g.IsEmpty(), "IsEmpty")
	vfAssert(g.Validate() == nil, "valid")
	vfAssert(g.Envelope().IsEmpty(), "empty envelope")
	vfAssert(g.Area() == 0 && g.Length() == 0, "zero measures")
	vfAssert(g.Centroid().IsEmpty(), "empty centroid")
	vfAssert(g.PointOnSurface().IsEmpty(), "empty point on surface")
	vfAssert(g.ConvexHull().IsEmpty(), "empty hull")
	vfAssert(g.Boundary().IsEmpty(), "empty boundary")
	vfAssert(g.Reverse().IsEmpty() && g.Reverse().Type() == g.Type(), "Reverse")
	vfAssert(g.Force2D().IsEmpty() && g.Force2D().CoordinatesType() == DimXY, "Force2D")
	vfAssert(g.ForceCW().IsEmpty() && g.ForceCCW().IsEmpty(), "ForceCW/CCW")
	vfAssert(g.DumpCoordinates().Length() == 0, "no coordinates")
	vfAssert(g.TransformXY(func(p XY) XY { return XY{p.Y, p.X} }).IsEmpty(), "TransformXY")
	vfAssert(g.Densify(1).IsEmpty(), "Densify")
	vfAssert(g.SnapToGrid(2).IsEmpty(), "SnapToGrid")
	s, err := g.Simplify(1)
	vfAssert(err == nil && s.IsEmpty(), "Simplify")
	_, _ = g.IsSimple()
	_ = g.Dimension()
	_ = g.IsCW()
	_ = g.IsCCW()
	_ = g.Dump()
	wkb := g.AsBinary()
	h, err := UnmarshalWKB(wkb)
	vfAssert(err == nil && h.IsEmpty() && h.Type() == g.Type(), "WKB round trip keeps type and emptiness")
	txt := g.AsText()
	h2, err := UnmarshalWKT(txt)
	vfAssert(err == nil && h2.IsEmpty() && h2.Type() == g.Type(), "WKT round trip keeps type and emptiness")
	vfAssert(string(g.AppendWKT([]byte("x"))) == "x"+txt, "AppendWKT is prefix + AsText")
	u, err := UnaryUnion(g)
	vfAssert(err == nil && u.IsEmpty(), "UnaryUnion")
	tw, err := MarshalTWKB(g, 0)
	vfAssert(err == nil, "MarshalTWKB")
	h3, err := UnmarshalTWKB(tw)
	vfAssert(err == nil && h3.IsEmpty() && h3.Type() == g.Type(), "TWKB round trip keeps type and emptiness")
	vfReach("end")
}

// Every binary operation accepts empties in either slot.
func vfhC20BinaryOnEmpties() {
	ct := vfCT("ct")
	a := vfEmpty(vfInt("ka", 0, vfNumEmpties-1), ct)
	b := vfEmpty(vfInt("kb", 0, vfNumEmpties-1), DimXY)
	vfAssert(!Intersects(a, b), "empties do not intersect")
	_, ok := Distance(a, b)
	vfAssert(!ok, "distance undefined")
	for _, op := range []func(Geometry, Geometry) (Geometry, error){Union, Intersection, Difference, SymmetricDifference} {
		r, err := op(a, b)
		vfAssert(err == nil && r.IsEmpty(), "set operation of empties is empty")
	}
	m, err := Relate(a, b)
	vfAssert(err == nil && m == "FFFFFFFF2", "Relate of empties")
	dj, err := Disjoint(a, b)
	vfAssert(err == nil && dj, "Disjoint")
	for _, pred := range []func(Geometry, Geometry) (bool, error){Touches, Contains, Covers, Within, CoveredBy, Crosses, Overlaps} {
		v, err := pred(a, b)
		vfAssert(err == nil && !v, "predicates are false on empties")
	}
	_ = ExactEquals(a, b)
	_ = ExactEquals(a, b, IgnoreOrder)
	vfReach("end")
}

// Empty members are transparent; an empty operand gives the neutral answer.
func vfhC20Transparency() {
	ct := vfCT("ct")
	e := vfEmpty(vfInt("kind", 0, vfNumEmpties-1), DimXY)
	p, q, r := vfPt("p"), vfPt("q"), vfPt("r")
	vfAssume(!vfEqXY(p, q))
	line := vfLineXY(p, q).AsGeometry()
	pt := vfPointXY(r).AsGeometry()
	_ = ct
	with := NewGeometryCollection([]Geometry{e, line, e}).AsGeometry()
	vfAssert(with.Envelope() == line.Envelope(), "envelope unchanged by empty members")
	vfAssert(with.Area() == 0, "area unchanged")
	vfAssert(Intersects(with, pt) == Intersects(line, pt), "Intersects unchanged")
	vfAssert(!Intersects(e, line) && !Intersects(line, e), "an empty operand never intersects")
	_, ok := Distance(e, line)
	vfAssert(!ok, "distance to an empty operand is undefined")
	vfAssert(with.IsEmpty() == false && with.Dimension() >= 0, "not empty")
	b1, b2 := with.Boundary(), line.Boundary()
	vfAssert(b1.IsEmpty() == b2.IsEmpty(), "boundary emptiness unchanged")
	vfReach("end")
}

// Zero values of the concrete types behave as empty geometries.
func vfhC20ZeroValues() {
	var (
		pt   Point
		ls   LineString
		poly Polygon
		mp   MultiPoint
		mls  MultiLineString
		mpo  MultiPolygon
		gc   GeometryCollection
		g    Geometry
		seq  Sequence
		env  Envelope
	)
	vfAssert(pt.IsEmpty() && ls.IsEmpty() && poly.IsEmpty() && mp.IsEmpty() && mls.IsEmpty() && mpo.IsEmpty() && gc.IsEmpty() && g.IsEmpty(), "zero values are empty")
	vfAssert(seq.Length() == 0 && env.IsEmpty(), "zero sequence and envelope")
	vfAssert(pt.AsText() == "POINT EMPTY" && ls.AsText() == "LINESTRING EMPTY" && poly.AsText() == "POLYGON EMPTY", "WKT of zero values")
	vfAssert(mp.AsText() == "MULTIPOINT EMPTY" && mls.AsText() == "MULTILINESTRING EMPTY" && mpo.AsText() == "MULTIPOLYGON EMPTY", "WKT of zero multi values")
	vfAssert(gc.AsText() == "GEOMETRYCOLLECTION EMPTY" && g.AsText() == "GEOMETRYCOLLECTION EMPTY", "WKT of zero collections")
	vfAssert(string(g.AppendWKT(nil)) == g.AsText(), "AppendWKT on the zero Geometry")
	vfAssert(g.IsGeometryCollection() && g.Type() == TypeGeometryCollection && g.CoordinatesType() == DimXY, "zero Geometry is an XY collection")
	vfAssert(ExactEquals(g, gc.AsGeometry()), "zero Geometry equals the empty collection")
	vfAssert(len(g.AsBinary()) == len(gc.AsBinary()), "same WKB length")
	vfAssert(ls.StartPoint().IsEmpty() && ls.EndPoint().IsEmpty() && !ls.IsClosed() && ls.IsSimple(), "zero LineString accessors")
	vfAssert(poly.ExteriorRing().IsEmpty() && poly.NumInteriorRings() == 0 && poly.Boundary().IsEmpty(), "zero Polygon accessors")
	vfAssert(mp.NumPoints() == 0 && mls.NumLineStrings() == 0 && mpo.NumPolygons() == 0 && gc.NumGeometries() == 0, "zero counts")
	vfReach("end")
}

// Adding an empty member of any kind at any position does not change Area,
// Centroid, Length or Envelope of a collection of two lattice triangles (or of
// two lines, or of two points).
func vfhC20MeasureTransparency() {
	e := vfEmpty(vfInt("kind", 0, vfNumEmpties-1), DimXY)
	t := vfPt("t")
	var m1, m2 Geometry
	switch vfInt("dim", 0, 2) {
	case 0:
		m1, m2 = vfPointXY(XY{0, 0}).AsGeometry(), vfPointXY(t).AsGeometry()
	case 1:
		m1, m2 = vfLineXY(XY{0, 0}, XY{3, 4}).AsGeometry(), vfLineXY(t, XY{t.X + 6, t.Y + 8}).AsGeometry()
	default:
		m1 = vfTriangle(XY{0, 0}, XY{1, 0}, XY{0, 1}).AsGeometry()
		m2 = vfTriangle(t, XY{t.X + 4, t.Y}, XY{t.X, t.Y + 4}).AsGeometry()
	}
	plain := NewGeometryCollection([]Geometry{m1, m2}).AsGeometry()
	var with Geometry
	switch vfInt("pos", 0, 4) {
	case 0:
		with = NewGeometryCollection([]Geometry{e, m1, m2}).AsGeometry()
	case 1:
		with = NewGeometryCollection([]Geometry{m1, e, m2}).AsGeometry()
	case 2:
		with = NewGeometryCollection([]Geometry{m1, m2, e}).AsGeometry()
	case 3: // the empty member sits next to m1 inside a nested collection
		with = NewGeometryCollection([]Geometry{NewGeometryCollection([]Geometry{m1, e}).AsGeometry(), m2}).AsGeometry()
	default:
		with = NewGeometryCollection([]Geometry{m1, NewGeometryCollection([]Geometry{e, m2}).AsGeometry()}).AsGeometry()
	}
	vfAssert(with.Area() == plain.Area(), "Area unchanged by an empty member")
	vfAssert(with.Length() == plain.Length(), "Length unchanged by an empty member")
	vfAssert(with.Envelope() == plain.Envelope(), "Envelope unchanged by an empty member")
	c1, ok1 := with.Centroid().XY()
	c2, ok2 := plain.Centroid().XY()
	vfAssert(ok1 && ok2, "centroids are non-empty")
	vfAssert(vfAnd(c1.X == c2.X, c1.Y == c2.Y), "Centroid unchanged by an empty member")
	vfAssert(with.PointOnSurface().IsEmpty() == plain.PointOnSurface().IsEmpty(), "PointOnSurface emptiness unchanged")
	vfAssert(with.Dimension() >= plain.Dimension(), "Dimension() may count the empty member (documented), never less")
	vfReach("end")
}

// An empty member of any kind, added before or after POINT(p) in a collection,
// changes neither the DE-9IM matrix nor any named predicate, against POINT(q),
// against empty operands, and against a line that passes through the point.
func vfhC20RelateTransparency() {
	e := vfEmpty(vfInt("kind", 0, vfNumEmpties-1), DimXY)
	var plain, other Geometry
	switch vfInt("other", 0, 3) {
	case 0:
		plain = vfPointXY(XY{1, 1}).AsGeometry()
		if vfBool("same") {
			other = vfPointXY(XY{1, 1}).AsGeometry()
		} else {
			other = vfPointXY(XY{3, 2}).AsGeometry()
		}
	case 1:
		plain = vfPointXY(vfPtO("p")).AsGeometry()
		other = GeometryCollection{}.AsGeometry()
	case 2:
		plain = vfPointXY(XY{2, 2}).AsGeometry()
		other = vfLineXY(XY{0, 0}, XY{4, 4}).AsGeometry()
	default:
		plain = vfLineXY(XY{0, 0}, XY{4, 4}).AsGeometry()
		other = vfLineXY(XY{0, 4}, XY{4, 0}).AsGeometry()
	}
	var with Geometry
	if vfBool("empty-first") {
		with = NewGeometryCollection([]Geometry{e, plain}).AsGeometry()
	} else {
		with = NewGeometryCollection([]Geometry{plain, e}).AsGeometry()
	}
	m1, err1 := Relate(with, other)
	m0, err0 := Relate(plain, other)
	vfAssert(err0 == nil && err1 == nil && m1 == m0, "Relate(with, other) is Relate(plain, other)")
	r1, err1 := Relate(other, with)
	r0, err0 := Relate(other, plain)
	vfAssert(err0 == nil && err1 == nil && r1 == r0, "Relate(other, with) is Relate(other, plain)")
	preds := []func(a, b Geometry) (bool, error){Equals, Disjoint, Touches, Contains, Covers, Within, CoveredBy, Crosses, Overlaps}
	names := []string{"Equals", "Disjoint", "Touches", "Contains", "Covers", "Within", "CoveredBy", "Crosses", "Overlaps"}
	for i, f := range preds {
		w, errw := f(with, other)
		p, errp := f(plain, other)
		vfAssert(errw == nil && errp == nil && w == p, names[i]+"(with, other) unchanged by the empty member")
		w, errw = f(other, with)
		p, errp = f(other, plain)
		vfAssert(errw == nil && errp == nil && w == p, names[i]+"(other, with) unchanged by the empty member")
	}
	vfReach("end")
}
