//go:build verif

package geom

func init() {
	vfHarnesses["C14_area_triangle"] = vfhC14AreaTriangle
	vfHarnesses["C14_area_quad_hole"] = vfhC14AreaQuadHole
	vfHarnesses["C14_zero_measures"] = vfhC14ZeroMeasures
}

func vfAbs(x float64) float64 {
	if x < 0 {
		return -x
	}
	return x
}

// Area of a triangle ring on the lattice: exact value, sign convention,
// Reverse, rotation of the start vertex, integer translation, orientation
// forcing, transform option, collections.
func vfhC14AreaTriangle() {
	a, b, c := vfPt("a"), vfPt("b"), vfPt("c")
	twice := vfCross(a, b, c) // twice the signed area, CCW positive
	poly := vfTriangle(a, b, c)
	vfAssert(poly.Area()*2 == vfAbs(twice), "Area is |cross|/2")
	vfAssert(poly.Area(SignedArea)*2 == twice, "signed area is positive for counter-clockwise")
	vfAssert(poly.Reverse().Area(SignedArea) == -poly.Area(SignedArea), "Reverse negates the signed area")
	vfAssert(poly.Reverse().Area() == poly.Area(), "Reverse keeps the area")
	rot := vfTriangle(b, c, a)
	vfAssert(rot.Area(SignedArea) == poly.Area(SignedArea), "independent of the start vertex")
	t := vfPt("t")
	tr := func(p XY) XY { return XY{p.X + t.X, p.Y + t.Y} }
	moved := vfTriangle(tr(a), tr(b), tr(c))
	vfAssert(moved.Area(SignedArea) == poly.Area(SignedArea), "invariant under integer translation")
	vfAssert(poly.Area(WithTransform(tr)) == moved.Area(), "Area(WithTransform(f)) = Area of the transformed geometry")
	swap := func(p XY) XY { return XY{p.Y, p.X} }
	vfAssert(poly.Area(WithTransform(swap)) == poly.TransformXY(swap).Area(), "same for an axis swap")
	vfAssert(poly.ForceCW().Area() == poly.Area(), "ForceCW keeps the area")
	vfAssert(poly.ForceCCW().Area() == poly.Area(), "ForceCCW keeps the area")
	if twice != 0 {
		vfAssert(poly.ForceCW().IsCW(), "ForceCW yields IsCW")
		vfAssert(poly.ForceCCW().IsCCW(), "ForceCCW yields IsCCW")
		vfAssert(poly.ForceCCW().Area(SignedArea) > 0, "counter-clockwise has positive signed area")
		vfAssert(poly.ForceCW().ForceCW().Area(SignedArea) == poly.ForceCW().Area(SignedArea), "ForceCW idempotent")
		vfReach("nonzero")
	}
	// additivity over members; lower-dimensional members contribute nothing
	mp := NewMultiPolygon([]Polygon{poly, rot})
	vfAssert(mp.Area() == poly.Area()+rot.Area(), "MultiPolygon area is the sum")
	gc := NewGeometryCollection([]Geometry{poly.AsGeometry(), vfPointXY(a).AsGeometry(), vfLineXY(a, b).AsGeometry()})
	vfAssert(gc.Area() == poly.Area(), "collection area counts areal members only")
	// Z/M do not matter
	vfAssert(poly.ForceCoordinatesType(DimXYZM).Area() == poly.Area(), "Z/M do not change the area")
	vfReach("end")
}

// Quadrilateral shell with a triangular hole (validity not assumed: the
// formula |shell| - |hole| is what is checked).
func vfhC14AreaQuadHole() {
	a, b, c, d := vfPt("a"), vfPt("b"), vfPt("c"), vfPt("d")
	h1, h2, h3 := vfPt("h1"), vfPt("h2"), vfPt("h3")
	shell2 := vfCross(a, b, c) + vfCross(a, c, d) // fan triangulation from a
	hole2 := vfCross(h1, h2, h3)
	poly := NewPolygon([]LineString{vfLineXY(a, b, c, d, a), vfLineXY(h1, h2, h3, h1)})
	vfAssert(poly.Area()*2 == vfAbs(shell2)-vfAbs(hole2), "area is |shell| - |hole|")
	vfAssert(poly.Area(SignedArea)*2 == shell2+hole2, "signed area adds the signed rings")
	rev := poly.Reverse()
	vfAssert(rev.Area() == poly.Area(), "Reverse keeps the area")
	vfAssert(rev.Area(SignedArea) == -poly.Area(SignedArea), "Reverse negates the signed area")
	// the options combine: a transform that neither keeps area nor orientation
	// (determinant -6) applies to every ring, signed or not, in either order
	f := func(p XY) XY { return XY{3 * p.Y, 2 * p.X} }
	vfAssert(poly.Area(WithTransform(f))*2 == 6*(vfAbs(shell2)-vfAbs(hole2)), "Area(WithTransform(f)) is the area of the transformed polygon")
	vfAssert(poly.Area(SignedArea, WithTransform(f))*2 == -6*(shell2+hole2), "signed Area(WithTransform(f)) is the signed area of the transformed polygon")
	vfAssert(poly.Area(WithTransform(f), SignedArea) == poly.Area(SignedArea, WithTransform(f)), "option order does not matter")
	vfAssert(NewMultiPolygon([]Polygon{poly}).Area(SignedArea, WithTransform(f)) == poly.Area(SignedArea, WithTransform(f)), "the options reach the members of a MultiPolygon")
	vfAssert(poly.AsGeometry().Area(WithTransform(f), SignedArea) == poly.Area(SignedArea, WithTransform(f)), "and go through Geometry.Area")
	vfReach("end")
}

// Geometries without an areal / lineal part have zero area / length.
func vfhC14ZeroMeasures() {
	a, b := vfPt("a"), vfPt("b")
	p := vfPointXY(a).AsGeometry()
	l := vfLineXY(a, b).AsGeometry()
	vfAssert(p.Area() == 0 && p.Length() == 0, "point has no area or length")
	vfAssert(l.Area() == 0, "line has no area")
	vfAssert(l.Length() >= 0, "length is non-negative")
	vfAssert((l.Length() == 0) == vfEqXY(a, b), "length zero iff the end points coincide")
	e := Geometry{}
	vfAssert(e.Area() == 0 && e.Length() == 0, "zero Geometry has zero measures")
	vfAssert(e.Centroid().IsEmpty(), "centroid of the empty geometry is the empty point")
	vfReach("end")
}
