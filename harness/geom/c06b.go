//go:build verif

package geom

import "encoding/json"

func init() {
	vfHarnesses["C06_features"] = vfhC06Features
}

func vfMustWKT(s string) Geometry {
	g, err := UnmarshalWKT(s)
	if err != nil {
		panic("harness WKT: " + s)
	}
	return g
}

// vfJSONSame compares two values of the shapes encoding/json stores in an
// interface{}.
func vfJSONSame(a, b interface{}) bool {
	switch x := a.(type) {
	case nil:
		return b == nil
	case bool:
		y, ok := b.(bool)
		return ok && x == y
	case float64:
		y, ok := b.(float64)
		return ok && x == y
	case string:
		y, ok := b.(string)
		return ok && x == y
	case []interface{}:
		y, ok := b.([]interface{})
		if !ok || len(x) != len(y) {
			return false
		}
		for i := range x {
			if !vfJSONSame(x[i], y[i]) {
				return false
			}
		}
		return true
	case map[string]interface{}:
		y, ok := b.(map[string]interface{})
		return ok && vfJSONMapSame(x, y)
	}
	return false
}

// nil and empty maps are the same thing to the format
func vfJSONMapSame(x, y map[string]interface{}) bool {
	if len(x) != len(y) {
		return false
	}
	for k, v := range x {
		w, ok := y[k]
		if !ok || !vfJSONSame(v, w) {
			return false
		}
	}
	return true
}

func vfFeatureSame(a, b GeoJSONFeature) bool {
	return ExactEquals(a.Geometry, b.Geometry) && vfJSONSame(a.ID, b.ID) &&
		vfJSONMapSame(a.Properties, b.Properties) && vfJSONMapSame(a.ForeignMembers, b.ForeignMembers)
}

// Features and FeatureCollections round-trip their geometry, id, properties
// and foreign members; re-encoding what was decoded gives the same bytes
// (so no member is duplicated or moved).
func vfhC06Features() {
	var f GeoJSONFeature
	switch vfInt("geom", 0, 2) {
	case 0:
		f.Geometry = vfMustWKT("POINT(1 2)")
	case 1:
		f.Geometry = vfMustWKT("LINESTRING Z(0 0 5,1 1 6)")
	default:
		f.Geometry = vfMustWKT("GEOMETRYCOLLECTION(POINT EMPTY,POLYGON((0 0,0 1,1 0,0 0)))")
	}
	switch vfInt("id", 0, 3) {
	case 1:
		f.ID = "abc"
	case 2:
		f.ID = 7.5
	case 3:
		f.ID = ""
	}
	switch vfInt("properties", 0, 2) {
	case 1:
		f.Properties = map[string]interface{}{}
	case 2:
		f.Properties = map[string]interface{}{"a": 1.0, "id": "p", "nested": map[string]interface{}{"k": []interface{}{true, nil, "s"}}}
	}
	switch vfInt("foreign", 0, 3) {
	case 1:
		f.ForeignMembers = map[string]interface{}{}
	case 2:
		f.ForeignMembers = map[string]interface{}{"bbox": []interface{}{0.0, 1.0, 2.0, 3.0}}
	case 3:
		f.ForeignMembers = map[string]interface{}{"title": "t", "zz": nil, "crs": map[string]interface{}{"id": 1.0}}
	}
	if vfBool("collection") {
		n := vfInt("n", 0, 2)
		var fc GeoJSONFeatureCollection
		for i := 0; i < n; i++ {
			fc = append(fc, f)
		}
		js, err := json.Marshal(fc)
		vfAssert(err == nil, "a FeatureCollection marshals")
		var back GeoJSONFeatureCollection
		vfAssert(json.Unmarshal(js, &back) == nil, "and decodes again")
		vfAssert(len(back) == n, "with the same number of features")
		for i := range back {
			vfAssert(vfFeatureSame(back[i], f), "each feature keeps geometry, id, properties and foreign members")
		}
		js2, err := json.Marshal(back)
		vfAssert(err == nil && string(js2) == string(js), "re-encoding the decoded collection gives the same bytes")
		var g Geometry
		vfAssert(json.Unmarshal(js, &g) != nil, "a FeatureCollection does not decode as a geometry")
		vfReach("collection")
		return
	}
	js, err := json.Marshal(f)
	vfAssert(err == nil, "a Feature marshals")
	var back GeoJSONFeature
	vfAssert(json.Unmarshal(js, &back) == nil, "and decodes again")
	vfAssert(vfFeatureSame(back, f), "the feature keeps geometry, id, properties and foreign members")
	vfAssert((back.ID == nil) == (f.ID == nil), "an id is present iff one was given")
	js2, err := json.Marshal(back)
	vfAssert(err == nil && string(js2) == string(js), "re-encoding the decoded feature gives the same bytes")
	var fc GeoJSONFeatureCollection
	vfAssert(json.Unmarshal(js, &fc) != nil, "a Feature does not decode as a FeatureCollection")
	vfReach("feature")
}

func init() {
	vfHarnesses["C08_feature_documents"] = vfhC08FeatureDocuments
	vfHarnesses["C06_feature_documents"] = vfhC08FeatureDocuments
}

// Feature documents built from a grammar (members missing, null, or of the
// wrong JSON type): decoding never panics; what is accepted has a valid
// geometry, can be re-encoded, and decodes again to the same feature.
func vfhC08FeatureDocuments() {
	types := []string{``, `"type":"Feature"`, `"type":"feature"`, `"type":5`, `"type":null`, `"type":"FeatureCollection"`}
	geoms := []string{``, `"geometry":null`, `"geometry":{"type":"Point","coordinates":[1,2]}`, `"geometry":{"type":"Point"}`,
		`"geometry":7`, `"geometry":{"type":"Polygon","coordinates":[[[0,0],[1,1]]]}`, `"geometry":{"type":"Feature"}`,
		`"geometry":{"type":"GeometryCollection","geometries":[{"type":"LineString","coordinates":[[0,0,1],[1,1]]}]}`}
	ids := []string{``, `"id":"x"`, `"id":null`, `"id":{"a":[1]}`}
	props := []string{``, `"properties":null`, `"properties":{}`, `"properties":[]`, `"properties":5`, `"properties":{"id":null,"a":{"b":[]}}`}
	extra := []string{``, `"extra":[1,"two",null]`, `"features":[]`}
	ti, gi := vfInt("type", 0, len(types)-1), vfInt("geometry", 0, len(geoms)-1)
	ii, pi, ei := vfInt("id", 0, len(ids)-1), vfInt("properties", 0, len(props)-1), vfInt("extra", 0, len(extra)-1)
	doc := "{"
	for _, m := range []string{extra[ei], geoms[gi], ids[ii], types[ti], props[pi]} {
		if m == "" {
			continue
		}
		if len(doc) > 1 {
			doc += ","
		}
		doc += m
	}
	doc += "}"
	var f GeoJSONFeature
	err := json.Unmarshal([]byte(doc), &f)
	if ti != 1 || gi == 0 {
		vfAssert(err != nil, "a document without the Feature type or without a geometry member is refused")
	}
	var fc GeoJSONFeatureCollection
	errFC := json.Unmarshal([]byte(doc), &fc)
	vfAssert((errFC == nil) == (ti == 5), "decodes as a FeatureCollection iff the type member says so")
	if err != nil {
		vfReach("refused")
		return
	}
	vfAssert(f.Geometry.Validate() == nil, "an accepted feature has a valid geometry")
	vfAssert((f.ID != nil) == (ii == 1 || ii == 3), "id present iff given and not null")
	nForeign := 0
	if ei != 0 {
		nForeign = 1
	}
	vfAssert(len(f.ForeignMembers) == nForeign, "foreign members are exactly the unknown top-level members")
	js, err := json.Marshal(f)
	vfAssert(err == nil, "an accepted feature can be re-encoded")
	var back GeoJSONFeature
	vfAssert(json.Unmarshal(js, &back) == nil && vfFeatureSame(back, f), "and decodes again to the same feature")
	_ = f.Geometry.AsText()
	_ = f.Geometry.AsBinary()
	vfReach("accepted")
}
