//go:build verif

package geom

// Exact oracles on the integer lattice (every operation below is exact in
// float64 for |c| <= 2^10, and is carried by the engine in exact arithmetic).

const vfK = 10

func vfPt(name string) XY {
	return XY{vfLattice(name+".x", vfK), vfLattice(name+".y", vfK)}
}

// vfPtO: a lattice point for the overlay harnesses, |c| <= 2^9 (the node set
// computes bucket indices c*2^33+-1, which must stay exactly representable).
func vfPtO(name string) XY {
	return XY{vfLattice(name+".x", 9), vfLattice(name+".y", 9)}
}

func vfCross(o, a, b XY) float64 {
	return (a.X-o.X)*(b.Y-o.Y) - (a.Y-o.Y)*(b.X-o.X)
}

func vfMin(a, b float64) float64 {
	if a < b {
		return a
	}
	return b
}

func vfMax(a, b float64) float64 {
	if a > b {
		return a
	}
	return b
}

// vfOnSeg: p lies on the closed segment [a,b].
func vfOnSeg(p, a, b XY) bool {
	return vfAnd(vfCross(a, b, p) == 0,
		vfAnd(vfAnd(vfMin(a.X, b.X) <= p.X, p.X <= vfMax(a.X, b.X)),
			vfAnd(vfMin(a.Y, b.Y) <= p.Y, p.Y <= vfMax(a.Y, b.Y))))
}

// vfSegsMeet: the closed segments [a,b] and [c,d] share a point.
func vfSegsMeet(a, b, c, d XY) bool {
	d1 := vfCross(c, d, a)
	d2 := vfCross(c, d, b)
	d3 := vfCross(a, b, c)
	d4 := vfCross(a, b, d)
	proper := vfAnd(vfOr(vfAnd(d1 > 0, d2 < 0), vfAnd(d1 < 0, d2 > 0)),
		vfOr(vfAnd(d3 > 0, d4 < 0), vfAnd(d3 < 0, d4 > 0)))
	touch := vfOr(vfOr(vfOnSeg(a, c, d), vfOnSeg(b, c, d)), vfOr(vfOnSeg(c, a, b), vfOnSeg(d, a, b)))
	return vfOr(proper, touch)
}

// vfInTriClosed: p is in the closed triangle abc (any orientation, area != 0).
func vfInTriClosed(p, a, b, c XY) bool {
	s1 := vfCross(a, b, p)
	s2 := vfCross(b, c, p)
	s3 := vfCross(c, a, p)
	return vfOr(vfAnd(vfAnd(s1 >= 0, s2 >= 0), s3 >= 0), vfAnd(vfAnd(s1 <= 0, s2 <= 0), s3 <= 0))
}

func vfEqXY(a, b XY) bool { return vfAnd(a.X == b.X, a.Y == b.Y) }

func vfLineXY(pts ...XY) LineString {
	fs := make([]float64, 0, 2*len(pts))
	for _, p := range pts {
		fs = append(fs, p.X, p.Y)
	}
	return NewLineString(NewSequence(fs, DimXY))
}

func vfPointXY(p XY) Point { return NewPoint(Coordinates{XY: p, Type: DimXY}) }

func vfTriangle(a, b, c XY) Polygon {
	return NewPolygon([]LineString{vfLineXY(a, b, c, a)})
}

// vfProperCross: the open segments (a,b) and (c,d) cross at a single interior
// point of both.
func vfProperCross(a, b, c, d XY) bool {
	d1 := vfCross(c, d, a)
	d2 := vfCross(c, d, b)
	d3 := vfCross(a, b, c)
	d4 := vfCross(a, b, d)
	return vfAnd(vfOr(vfAnd(d1 > 0, d2 < 0), vfAnd(d1 < 0, d2 > 0)),
		vfOr(vfAnd(d3 > 0, d4 < 0), vfAnd(d3 < 0, d4 > 0)))
}

// vfExistsXY: some location of the quarter-integer grid in [-2^k,2^k]^2 satisfies
// pred (the symbolic engine asks the solver about every real location instead).
func vfExistsXY(label string, k int, pred func(XY) bool) {
	lim := float64(int(1) << uint(k))
	for x := -lim; x <= lim; x += 0.25 {
		for y := -lim; y <= lim; y += 0.25 {
			if pred(XY{x, y}) {
				return
			}
		}
	}
	panic(vfAssertFailed{label})
}
