//go:build verif

package geom

func init() {
	vfHarnesses["C09_distance_shapes"] = vfhC09DistanceShapes
	vfHarnesses["C09_intersects_shapes"] = vfhC09IntersectsShapes
}

var vfC09Extra = [][2]string{
	{"POLYGON((0 0,8 0,8 8,0 8,0 0),(2 2,6 2,6 6,2 6,2 2))", "POINT(4 4)"},          // point in a hole
	{"POLYGON((0 0,8 0,8 8,0 8,0 0),(2 2,6 2,6 6,2 6,2 2))", "LINESTRING(3 3,5 5)"}, // line in a hole
	{"POLYGON((0 0,8 0,8 8,0 8,0 0),(2 2,6 2,6 6,2 6,2 2))", "MULTIPOINT(4 4,3 5)"}, // points in a hole
	{"POLYGON((0 0,8 0,8 8,0 8,0 0),(2 2,6 2,6 6,2 6,2 2))", "MULTIPOLYGON(((3 3,5 3,5 5,3 5,3 3)),((9 9,10 9,10 10,9 9)))"},
	{"MULTIPOLYGON(((0 0,2 0,2 2,0 2,0 0)),((5 5,9 5,9 9,5 9,5 5),(6 6,8 6,8 8,6 8,6 6)))", "MULTILINESTRING((3 3,4 4),(6.5 6.5,7.5 7.5))"},
	{"MULTILINESTRING((0 0,1 1),(5 5,6 6))", "MULTILINESTRING((0 1,1 2),(6 6,7 5))"}, // only the last members meet
	{"MULTIPOINT(1 1,2 2,3 3)", "MULTIPOINT(4 4,3 3)"},
	{"GEOMETRYCOLLECTION(POINT(9 9),LINESTRING(0 0,1 1),POLYGON((4 4,6 4,6 6,4 6,4 4)))", "GEOMETRYCOLLECTION(POINT EMPTY,GEOMETRYCOLLECTION(POINT(5 5)))"},
	{"LINESTRING(0 0,4 0)", "LINESTRING(5 0,9 0)"},                       // collinear, apart
	{"POLYGON((0 0,4 0,4 4,0 4,0 0))", "POLYGON((5 0,9 0,9 4,5 4,5 0))"}, // apart
	// five or more rings / members / lines (the R-trees built over them have two levels)
	{"POLYGON((0 0,20 0,20 20,0 20,0 0),(2 2,8 2,8 8,2 8,2 2),(12 12,18 12,18 18,12 18,12 12),(12 2,18 2,18 8,12 8,12 2),(2 12,8 12,8 18,2 18,2 12))", "MULTIPOINT(5 5,10 10,15 15,15 5,5 15,1 1)"},
	{"MULTILINESTRING((0 0,0 5),(2 0,2 5),(4 0,4 5),(6 0,6 5),(8 0,8 5),(10 5,10 0))", "LINESTRING(-1 2,12 2)"},
	{"MULTIPOLYGON(((0 0,2 0,2 2,0 2,0 0)),((4 0,6 0,6 2,4 2,4 0)),((8 0,10 0,10 2,8 2,8 0)),((0 4,2 4,2 6,0 6,0 4)),((4 4,6 4,6 6,4 6,4 4)),((8 4,10 4,10 6,8 6,8 4)))", "POLYGON((1 1,9 1,9 5,1 5,1 1))"},
	// the middle row crosses the polygon in three pieces (comb), or in pieces separated by a narrow and a wide hole
	{"POLYGON((0 0,14 0,14 10,12 10,12 2,9 2,9 10,5 10,5 2,2 2,2 10,0 10,0 0))", "POINT(7 5)"},
	{"POLYGON((0 0,20 0,20 10,0 10,0 0),(2 4,3 4,3 6,2 6,2 4),(6 4,16 4,16 6,6 6,6 4))", "POINT(11 5)"},
	// a MultiPolygon whose first member has a hole and whose later member sticks out of the first one's hull
	{"MULTIPOLYGON(((0 0,10 0,10 10,0 10,0 0),(2 2,2 4,4 4,4 2,2 2)),((20 0,30 0,30 12,20 10,20 0)))", "POINT(25 11)"},
	{"MULTIPOLYGON(((0 0,4 0,4 4,0 4,0 0),(1 1,1 2,2 2,2 1,1 1),(2 2,2 3,3 3,3 2,2 2)),((6 -3,8 -3,8 -1,6 -3)),((-5 5,-3 5,-4 9,-5 5)))", "LINESTRING(-6 0,9 0)"},
	// MultiLineStrings with a closed member before open ones (mod-2 boundary across members)
	{"MULTILINESTRING((0 0,4 0,4 4,0 4,0 0),(4 4,8 8))", "POINT(8 8)"},
	{"MULTILINESTRING((0 0,1 1),(5 5,6 5,6 6,5 5),(1 1,2 0))", "MULTIPOINT(1 1,2 0)"},
	// MultiPolygons with several members whose extreme vertices sit at different ring positions
	{"MULTIPOLYGON(((0 0,2 0,2 2,0 2,0 0)),((4 0,6 0,6 2,4 2,4 0)),((8 0,12 -3,12 3,8 2,8 0)),((0 5,1 9,-3 7,0 5)))", "POINT(20 20)"},
	{"MULTIPOLYGON(((0 0,1 0,1 1,0 0)),((3 3,4 3,4 4,3 3)),((6 0,7 -6,9 0,8 5,6 0)),((-5 0,-4 -1,-3 0,-4 6,-5 0)))", "LINESTRING(0 -8,1 -9)"},
	// holes with an apex on a row that the PointOnSurface scan may pick (diamond shell, centre row through a vertex)
	{"POLYGON((0 4,4 0,8 4,4 8,0 4),(3 3,5 3,4 6,3 3))", "POINT(4 1)"},
	{"POLYGON((0 4,4 0,8 4,4 8,0 4),(3 5,4 2,5 5,3 5))", "POINT(4 7)"},
	{"POLYGON((0 4,4 0,8 4,4 8,0 4),(2 4,3 3,4 4,3 6,2 4),(5 3,6 4,5 6,5 3))", "MULTIPOINT(3 4,1 4)"},
}

// Intersects and the flags of Distance on concrete operand pairs of every type
// combination against the definition: Intersects(a,b) iff SOME real location
// lies in both point sets (true: an existential query; false: a universal one
// over a symbolic location), symmetric, equal to !Disjoint and to a non-empty
// Intersection; Distance is defined and zero exactly then.
func vfhC09IntersectsShapes() {
	all := append(append(append([][2]string{}, vfC01Shapes...), vfC02Shapes...), vfC09Extra...)
	k := vfInt("case", 0, len(all)-1)
	a, err := UnmarshalWKT(all[k][0])
	vfAssert(err == nil, "operand a parses")
	b, err := UnmarshalWKT(all[k][1])
	vfAssert(err == nil, "operand b parses")
	got := Intersects(a, b)
	vfAssert(Intersects(b, a) == got, "symmetric")
	if got {
		vfExistsXY("Intersects is true: some location lies in both operands", 5, func(q XY) bool {
			ia, _ := vfLocIn(a, q)
			ib, _ := vfLocIn(b, q)
			return vfAnd(ia, ib)
		})
		vfReach("meet")
	} else {
		p := XY{vfLattice("p.x", 5), vfLattice("p.y", 5)}
		ia, _ := vfLocIn(a, p)
		ib, _ := vfLocIn(b, p)
		vfAssert(!vfAnd(ia, ib), "Intersects is false: no location lies in both operands")
		vfReach("apart")
	}
	dj, err := Disjoint(a, b)
	vfAssert(err == nil && dj == !got, "Disjoint (from Relate) is the negation of Intersects")
	x, err := Intersection(a, b)
	vfAssert(err == nil && x.IsEmpty() == !got, "Intersection is non-empty exactly when Intersects")
	d, ok := Distance(a, b)
	vfAssert(ok, "Distance is defined for non-empty operands")
	vfAssert((d == 0) == got, "Distance is zero exactly when the operands intersect")
	d2, ok := Distance(b, a)
	vfAssert(ok && d2 == d, "Distance is symmetric")
	ed, ok := a.Envelope().Distance(b.Envelope())
	vfAssert(ok && d >= ed, "Distance is never smaller than the distance between the envelopes")
	vfReach("end")
}

var vfC09Apart = [][2]string{
	{"LINESTRING(0 0,100 0)", "MULTIPOINT((0 5),(-10 0),(100 1))"},
	{"LINESTRING(0 0,100 0)", "MULTILINESTRING((0 5,0 9),(-10 0,-20 0),(100 1,100 7))"},
	{"LINESTRING(0 0,50 0,100 10)", "GEOMETRYCOLLECTION(POLYGON((-20 -20,-10 -20,-10 -10,-20 -10,-20 -20)),POINT(0 6),POINT(99 12))"},
	{"LINESTRING(5 10,5 1)", "LINESTRING(0 0,10 0,10 -5)"},
	{"LINESTRING(2 2,1 1)", "LINESTRING(0 0,4 0)"},
	{"POLYGON((0 0,8 0,8 8,0 8,0 0),(2 2,6 2,6 6,2 6,2 2))", "POLYGON((3 3,5 3,4 5,3 3))"},
	{"POLYGON((0 0,4 0,4 4,0 4,0 0))", "MULTIPOLYGON(((10 0,14 0,14 4,10 4,10 0)),((5 5,9 5,9 9,5 9,5 5)),((-9 -9,-5 -9,-5 -5,-9 -9)))"},
	{"MULTIPOINT(0 0,50 50,100 0)", "MULTIPOINT(10 10,52 49,90 -9,0 -20)"},
	{"POINT(3 4)", "LINESTRING(0 0,0 10,10 10)"},
	// the nearest segment is written "backwards" (from larger to smaller ordinates) behind a decoy
	{"POINT(0 0)", "MULTILINESTRING((-1 10,10 -1),(8 0,3 0))"},
	{"POINT(0 0)", "MULTILINESTRING((10 -1,-1 10),(0 8,0 3))"},
	{"LINESTRING(0 0,0 -5)", "LINESTRING(-1 10,10 -1,12 0,8 1,3 1)"},
	{"MULTILINESTRING((0 0,10 0),(0 20,10 20),(0 40,10 40),(0 60,10 60),(0 80,10 80))", "MULTILINESTRING((30 1,40 1),(30 21,40 21),(12 79,40 79),(30 61,40 61),(30 41,40 41))"},
	// the searched operand mixes point and segment records; the nearest feature is an early segment
	{"POINT(5 1)", "GEOMETRYCOLLECTION(POINT(100 100),LINESTRING(0 0,10 0,20 0,30 0,40 0))"},
	{"LINESTRING(5 1,5 9)", "GEOMETRYCOLLECTION(MULTIPOINT(100 100,-50 3),POLYGON((0 0,40 0,40 -10,0 -10,0 0)),LINESTRING(60 60,70 70))"},
	{"GEOMETRYCOLLECTION(POINT(-5 -5),LINESTRING(0 0,0 10))", "GEOMETRYCOLLECTION(POINT(90 90),POINT(80 80),LINESTRING(3 20,3 5,30 5),POINT(70 70))"},
}

// The value of Distance on concrete operands that do not intersect (several
// parts, nearest feature late in R-tree order, nearest point at the far end of a
// long segment or strictly inside a segment): NO pair of real locations p in a,
// q in b is closer than the reported distance (a universal query over two
// symbolic locations, exact arithmetic, relative slack 2^-30 for the rounding
// of the reported value). That the distance is attained is not decided here
// (the native side has no way to confirm a four-dimensional existential).
func vfhC09DistanceShapes() {
	k := vfInt("case", 0, len(vfC09Apart)-1)
	a, err := UnmarshalWKT(vfC09Apart[k][0])
	vfAssert(err == nil, "operand a parses")
	b, err := UnmarshalWKT(vfC09Apart[k][1])
	vfAssert(err == nil, "operand b parses")
	if vfBool("swap") {
		a, b = b, a
	}
	d, ok := Distance(a, b)
	vfAssert(ok && d > 0, "defined and positive for disjoint operands")
	const slack = 1.0 / (1 << 30)
	lo := d * d * (1 - slack) // concrete
	dist2 := func(p, q XY) float64 {
		dx, dy := vfSpecSub(p.X, q.X), vfSpecSub(p.Y, q.Y)
		return vfSpecSub(vfSpecMul(dx, dx), vfSpecSub(0, vfSpecMul(dy, dy)))
	}
	p := XY{vfLattice("p.x", 7), vfLattice("p.y", 7)}
	q := XY{vfLattice("q.x", 7), vfLattice("q.y", 7)}
	inA, _ := vfLocIn(a, p)
	inB, _ := vfLocIn(b, q)
	vfAssert(vfOr(!vfAnd(inA, inB), dist2(p, q) >= lo), "no location of a is closer to a location of b than Distance(a,b)")
	// upper bound: the first control points of the two operands are that far apart at most
	sa, sb := a.DumpCoordinates(), b.DumpCoordinates()
	a0, b0 := sa.GetXY(0), sb.GetXY(0)
	vfAssert(d*d <= ((a0.X-b0.X)*(a0.X-b0.X)+(a0.Y-b0.Y)*(a0.Y-b0.Y))*(1+slack), "Distance is at most the distance between two control points")
	vfReach("end")
}
