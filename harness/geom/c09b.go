//go:build verif

package geom

func init() {
	vfHarnesses["C09_intersects_shapes"] = vfhC09IntersectsShapes
}

var vfC09Extra = [][2]string{
	{"POLYGON((0 0,8 0,8 8,0 8,0 0),(2 2,6 2,6 6,2 6,2 2))", "POINT(4 4)"},          // point in a hole
	{"POLYGON((0 0,8 0,8 8,0 8,0 0),(2 2,6 2,6 6,2 6,2 2))", "LINESTRING(3 3,5 5)"}, // line in a hole
	{"POLYGON((0 0,8 0,8 8,0 8,0 0),(2 2,6 2,6 6,2 6,2 2))", "MULTIPOINT(4 4,3 5)"}, // points in a hole
	{"POLYGON((0 0,8 0,8 8,0 8,0 0),(2 2,6 2,6 6,2 6,2 2))", "MULTIPOLYGON(((3 3,5 3,5 5,3 5,3 3)),((9 9,10 9,10 10,9 9)))"},
	{"MULTIPOLYGON(((0 0,2 0,2 2,0 2,0 0)),((5 5,9 5,9 9,5 9,5 5),(6 6,8 6,8 8,6 8,6 6)))", "MULTILINESTRING((3 3,4 4),(6.5 6.5,7.5 7.5))"},
	{"MULTILINESTRING((0 0,1 1),(5 5,6 6))", "MULTILINESTRING((0 1,1 2),(6 6,7 5))"}, // only the last members meet
	{"MULTIPOINT(1 1,2 2,3 3)", "MULTIPOINT(4 4,3 3)"},
	{"GEOMETRYCOLLECTION(POINT(9 9),LINESTRING(0 0,1 1),POLYGON((4 4,6 4,6 6,4 6,4 4)))", "GEOMETRYCOLLECTION(POINT EMPTY,GEOMETRYCOLLECTION(POINT(5 5)))"},
	{"LINESTRING(0 0,4 0)", "LINESTRING(5 0,9 0)"},                       // collinear, apart
	{"POLYGON((0 0,4 0,4 4,0 4,0 0))", "POLYGON((5 0,9 0,9 4,5 4,5 0))"}, // apart
	// MultiPolygons with several members whose extreme vertices sit at different ring positions
	{"MULTIPOLYGON(((0 0,2 0,2 2,0 2,0 0)),((4 0,6 0,6 2,4 2,4 0)),((8 0,12 -3,12 3,8 2,8 0)),((0 5,1 9,-3 7,0 5)))", "POINT(20 20)"},
	{"MULTIPOLYGON(((0 0,1 0,1 1,0 0)),((3 3,4 3,4 4,3 3)),((6 0,7 -6,9 0,8 5,6 0)),((-5 0,-4 -1,-3 0,-4 6,-5 0)))", "LINESTRING(0 -8,1 -9)"},
	// holes with an apex on a row that the PointOnSurface scan may pick (diamond shell, centre row through a vertex)
	{"POLYGON((0 4,4 0,8 4,4 8,0 4),(3 3,5 3,4 6,3 3))", "POINT(4 1)"},
	{"POLYGON((0 4,4 0,8 4,4 8,0 4),(3 5,4 2,5 5,3 5))", "POINT(4 7)"},
	{"POLYGON((0 4,4 0,8 4,4 8,0 4),(2 4,3 3,4 4,3 6,2 4),(5 3,6 4,5 6,5 3))", "MULTIPOINT(3 4,1 4)"},
}

// Intersects and the flags of Distance on concrete operand pairs of every type
// combination against the definition: Intersects(a,b) iff SOME real location
// lies in both point sets (true: an existential query; false: a universal one
// over a symbolic location), symmetric, equal to !Disjoint and to a non-empty
// Intersection; Distance is defined and zero exactly then.
func vfhC09IntersectsShapes() {
	all := append(append(append([][2]string{}, vfC01Shapes...), vfC02Shapes...), vfC09Extra...)
	k := vfInt("case", 0, len(all)-1)
	a, err := UnmarshalWKT(all[k][0])
	vfAssert(err == nil, "operand a parses")
	b, err := UnmarshalWKT(all[k][1])
	vfAssert(err == nil, "operand b parses")
	got := Intersects(a, b)
	vfAssert(Intersects(b, a) == got, "symmetric")
	if got {
		vfExistsXY("Intersects is true: some location lies in both operands", 5, func(q XY) bool {
			ia, _ := vfLocIn(a, q)
			ib, _ := vfLocIn(b, q)
			return vfAnd(ia, ib)
		})
		vfReach("meet")
	} else {
		p := XY{vfLattice("p.x", 5), vfLattice("p.y", 5)}
		ia, _ := vfLocIn(a, p)
		ib, _ := vfLocIn(b, p)
		vfAssert(!vfAnd(ia, ib), "Intersects is false: no location lies in both operands")
		vfReach("apart")
	}
	dj, err := Disjoint(a, b)
	vfAssert(err == nil && dj == !got, "Disjoint (from Relate) is the negation of Intersects")
	x, err := Intersection(a, b)
	vfAssert(err == nil && x.IsEmpty() == !got, "Intersection is non-empty exactly when Intersects")
	d, ok := Distance(a, b)
	vfAssert(ok, "Distance is defined for non-empty operands")
	vfAssert((d == 0) == got, "Distance is zero exactly when the operands intersect")
	d2, ok := Distance(b, a)
	vfAssert(ok && d2 == d, "Distance is symmetric")
	ed, ok := a.Envelope().Distance(b.Envelope())
	vfAssert(ok && d >= ed, "Distance is never smaller than the distance between the envelopes")
	vfReach("end")
}
