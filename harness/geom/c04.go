//go:build verif

package geom

import "math"

func init() {
	vfHarnesses["C04_point"] = vfhC04Point
	vfHarnesses["smoke_concrete"] = vfhSmokeConcrete
}

// vfCT is a symbolic coordinates type.
func vfCT(name string) CoordinatesType {
	return CoordinatesType(vfInt(name, 0, 3))
}

func vfCoords(name string, ct CoordinatesType) Coordinates {
	c := Coordinates{Type: ct}
	c.X = vfFloat64(name + ".x")
	c.Y = vfFloat64(name + ".y")
	if ct.Is3D() {
		c.Z = vfFloat64(name + ".z")
	}
	if ct.IsMeasured() {
		c.M = vfFloat64(name + ".m")
	}
	return c
}

func vfSameBits(a, b float64) bool {
	return math.Float64bits(a) == math.Float64bits(b)
}

// C04: Point -> WKB -> Point is the identity (type, coordinate type, bits).
func vfhC04Point() {
	ct := vfCT("ct")
	var p Point
	if vfBool("empty") {
		p = NewEmptyPoint(ct)
		vfReach("empty")
	} else {
		c := vfCoords("p", ct)
		// WKB reserves NaN/NaN for the empty point and rejects a single NaN:
		// the property quantifies over NaN in Z and M only.
		vfAssume(!math.IsNaN(c.X) && !math.IsNaN(c.Y))
		p = NewPoint(c)
		vfReach("full")
	}
	g := p.AsGeometry()
	wkb := g.AsBinary()
	g2, err := UnmarshalWKB(wkb, NoValidate{})
	vfAssert(err == nil, "decode succeeds")
	vfAssert(g2.Type() == TypePoint, "type")
	vfAssert(g2.CoordinatesType() == ct, "coordinate type")
	p2 := g2.MustAsPoint()
	c1, ok1 := p.Coordinates()
	c2, ok2 := p2.Coordinates()
	vfAssert(ok1 == ok2, "emptiness")
	if ok1 {
		vfAssert(vfSameBits(c1.X, c2.X) && vfSameBits(c1.Y, c2.Y), "xy bits")
		if ct.Is3D() {
			vfAssert(vfSameBits(c1.Z, c2.Z), "z bits")
		}
		if ct.IsMeasured() {
			vfAssert(vfSameBits(c1.M, c2.M), "m bits")
		}
	}
	wkb2 := g2.AsBinary()
	vfAssert(len(wkb) == len(wkb2), "re-encode length")
	for i := range wkb {
		vfAssert(wkb[i] == wkb2[i], "re-encode bytes")
	}
	vfReach("end")
}

func vfhSmokeConcrete() {
	g, err := UnmarshalWKT("POLYGON((0 0,4 0,4 4,0 4,0 0),(1 1,2 1,2 2,1 2,1 1))")
	vfAssert(err == nil, "wkt parses")
	vfAssert(g.Validate() == nil, "valid")
	h, err := UnmarshalWKT("LINESTRING(-1 -1,5 5)")
	vfAssert(err == nil, "wkt2 parses")
	vfAssert(Intersects(g, h), "intersects")
	u, err := Union(g, h)
	vfAssert(err == nil, "union ok")
	vfObserveF64("area", u.Area())
	vfObserveInt("wktlen", int64(len(u.AsText())))
	vfReach("end")
}
