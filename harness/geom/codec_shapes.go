//go:build verif

package geom

func init() {
	vfHarnesses["C15_shapes_zm"] = vfhC15ShapesZM
	vfHarnesses["C05_extreme_numerals"] = vfhC05ExtremeNumerals
	vfHarnesses["C07_decimals"] = vfhC07Decimals
	vfHarnesses["C04_shapes"] = vfhC04Shapes
	vfHarnesses["C05_shapes"] = vfhC05Shapes
	vfHarnesses["C06_shapes"] = vfhC06Shapes
	vfHarnesses["C07_shapes"] = vfhC07Shapes
}

// vfShapeZM: one geometry of the shape tables, given distinct Z and M values
// per control point (Z = 100+i, M = -i/4) and forced to a symbolic coordinate
// type: structure from the tables, Z/M bookkeeping from the symbolic type.
func vfShapeZM() (Geometry, CoordinatesType) {
	all := append(append(append([][2]string{}, vfC01Shapes...), vfC02Shapes...), vfC09Extra...)
	k := vfInt("case", 0, len(all)-1)
	side := 0
	if vfBool("second") {
		side = 1
	}
	g, err := UnmarshalWKT(all[k][side])
	vfAssert(err == nil, "operand parses")
	ct := vfCT("ct")
	g = g.ForceCoordinatesType(DimXYZM)
	i := 0.0
	g = vfMapZM(g, func(c Coordinates) Coordinates {
		i++
		c.Z, c.M = 100+i, -i/4
		return c
	})
	return g.ForceCoordinatesType(ct), ct
}

// vfMapZM rebuilds g with f applied to every control point (structure kept).
func vfMapZM(g Geometry, f func(Coordinates) Coordinates) Geometry {
	seqOf := func(s Sequence) Sequence {
		fs := make([]float64, 0, 4*s.Length())
		n := s.Length()
		for i := 0; i < n; i++ {
			c := f(s.Get(i))
			if i == n-1 && n > 1 && s.GetXY(0) == s.GetXY(i) {
				// a closed curve stays closed in Z and M too (TWKB stores a ring's
				// closing point implicitly)
				c.Z, c.M = fs[2], fs[3]
			}
			fs = append(fs, c.X, c.Y, c.Z, c.M)
		}
		return NewSequence(fs, DimXYZM)
	}
	switch g.Type() {
	case TypePoint:
		c, ok := g.MustAsPoint().Coordinates()
		if !ok {
			return g
		}
		return NewPoint(f(c)).AsGeometry()
	case TypeLineString:
		return NewLineString(seqOf(g.MustAsLineString().Coordinates())).AsGeometry()
	case TypePolygon:
		p := g.MustAsPolygon()
		var rings []LineString
		for _, r := range p.DumpRings() {
			rings = append(rings, NewLineString(seqOf(r.Coordinates())))
		}
		return NewPolygon(rings).ForceCoordinatesType(DimXYZM).AsGeometry()
	case TypeMultiPoint:
		m := g.MustAsMultiPoint()
		var pts []Point
		for i := 0; i < m.NumPoints(); i++ {
			pts = append(pts, vfMapZM(m.PointN(i).AsGeometry(), f).MustAsPoint())
		}
		return NewMultiPoint(pts).ForceCoordinatesType(DimXYZM).AsGeometry()
	case TypeMultiLineString:
		m := g.MustAsMultiLineString()
		var ls []LineString
		for i := 0; i < m.NumLineStrings(); i++ {
			ls = append(ls, vfMapZM(m.LineStringN(i).AsGeometry(), f).MustAsLineString())
		}
		return NewMultiLineString(ls).ForceCoordinatesType(DimXYZM).AsGeometry()
	case TypeMultiPolygon:
		m := g.MustAsMultiPolygon()
		var ps []Polygon
		for i := 0; i < m.NumPolygons(); i++ {
			ps = append(ps, vfMapZM(m.PolygonN(i).AsGeometry(), f).MustAsPolygon())
		}
		return NewMultiPolygon(ps).ForceCoordinatesType(DimXYZM).AsGeometry()
	default:
		c := g.MustAsGeometryCollection()
		var gs []Geometry
		for i := 0; i < c.NumGeometries(); i++ {
			gs = append(gs, vfMapZM(c.GeometryN(i), f))
		}
		return NewGeometryCollection(gs).ForceCoordinatesType(DimXYZM).AsGeometry()
	}
}

// WKB: AsBinary / UnmarshalWKB, Value / Scan and a big-endian re-spelling of the
// header-less parts are covered elsewhere; here every table geometry with
// distinct Z/M in a symbolic coordinate type round-trips exactly.
func vfhC04Shapes() {
	g, ct := vfShapeZM()
	wkb := g.AsBinary()
	back, err := UnmarshalWKB(wkb)
	vfAssert(err == nil, "UnmarshalWKB succeeds")
	vfAssert(back.CoordinatesType() == ct && ExactEquals(back, g), "the same geometry, Z and M included")
	vfAssert(string(back.AsBinary()) == string(wkb), "re-encoding gives the same bytes")
	v, err := g.Value()
	vfAssert(err == nil, "Value succeeds")
	var sc Geometry
	vfAssert(sc.Scan(v) == nil && ExactEquals(sc, g), "Scan(Value()) is the identity")
	vfReach("end")
}

func vfhC05Shapes() {
	g, ct := vfShapeZM()
	txt := g.AsText()
	back, err := UnmarshalWKT(txt)
	vfAssert(err == nil, "UnmarshalWKT(AsText()) succeeds")
	vfAssert(back.CoordinatesType() == ct && ExactEquals(back, g), "the same geometry, Z and M included")
	vfAssert(back.AsText() == txt && string(g.AppendWKT(nil)) == txt, "printing is stable; AppendWKT agrees with AsText")
	vfReach("end")
}

func vfhC06Shapes() {
	g, ct := vfShapeZM()
	js, err := g.MarshalJSON()
	vfAssert(err == nil, "MarshalJSON succeeds")
	back, err := UnmarshalGeoJSON(js)
	vfAssert(err == nil, "UnmarshalGeoJSON(MarshalJSON()) succeeds")
	want := g.ForceCoordinatesType(ct & DimXYZ) // M is dropped by the format
	if g.DumpCoordinates().Length() == 0 {
		want = g.Force2D()
	}
	vfAssert(back.CoordinatesType() == want.CoordinatesType(), "Z kept, M dropped")
	vfAssert(ExactEquals(back, want), "the same geometry with the same XY and Z")
	vfReach("end")
}

func vfhC07Shapes() {
	g, ct := vfShapeZM()
	sizeHdr, bbox, closeRings := vfBool("size"), vfBool("bbox"), vfBool("close-rings")
	twkb, err := MarshalTWKB(g, 2, vfOpts(sizeHdr, bbox, closeRings, 0, 2, nil)...)
	vfAssert(err == nil, "marshal succeeds")
	back, err := UnmarshalTWKB(twkb, NoValidate{})
	vfAssert(err == nil, "unmarshal succeeds")
	vfAssert(back.Type() == g.Type() && back.CoordinatesType() == ct, "type and coordinate type")
	// integer X/Y/Z at precision 2/2/0 and M = -i/4 at precision 2 are all exact
	vfAssert(ExactEquals(back, g), "same structure and ordinates (exactly representable at these precisions)")
	sz, has, err := UnmarshalTWKBSize(twkb)
	vfAssert(err == nil && has == (sizeHdr && !g.IsEmpty()) && (!has || sz == len(twkb)), "size header tells the truth")
	env, hasBB, err := UnmarshalTWKBEnvelope(twkb)
	vfAssert(err == nil && hasBB == (bbox && !g.IsEmpty()), "bbox header presence")
	if hasBB {
		vfAssert(env.XYEnvelope == g.Envelope(), "bbox header is the XY envelope")
		// Z and M ranges of the header are those of the control points
		seq := g.DumpCoordinates()
		zlo, zhi, mlo, mhi := 0.0, 0.0, 0.0, 0.0
		for i := 0; i < seq.Length(); i++ {
			c := seq.Get(i)
			if i == 0 || c.Z < zlo {
				zlo = c.Z
			}
			if i == 0 || c.Z > zhi {
				zhi = c.Z
			}
			if i == 0 || c.M < mlo {
				mlo = c.M
			}
			if i == 0 || c.M > mhi {
				mhi = c.M
			}
		}
		a, b, ok := env.ZRange.MinMax()
		vfAssert(ok == ct.Is3D() && (!ok || (a == zlo && b == zhi)), "the header's Z range is the range of the Z ordinates")
		a, b, ok = env.MRange.MinMax()
		vfAssert(ok == ct.IsMeasured() && (!ok || (a == mlo && b == mhi)), "the header's M range is the range of the M ordinates")
	}
	vfReach("end")
}

// The operations defined on XY only do not look at Z and M: every table
// geometry with distinct Z and M per control point (so that coincident XY
// locations carry different Z/M) in a symbolic coordinate type gives the same
// Boundary, Centroid, ConvexHull, PointOnSurface, Envelope, Area, Length,
// IsSimple/Validate verdict and DE-9IM matrix as its 2D projection.
func vfhC15ShapesZM() {
	g, ct := vfShapeZM()
	g2 := g.Force2D()
	_ = ct
	vfAssert(ExactEquals(g.Boundary().Force2D(), g2.Boundary(), IgnoreOrder), "Boundary does not depend on Z/M (shared end points are counted by location)")
	vfAssert(ExactEquals(g.Centroid().AsGeometry(), g2.Centroid().AsGeometry()), "Centroid does not depend on Z/M")
	vfAssert(ExactEquals(g.ConvexHull(), g2.ConvexHull()), "ConvexHull does not depend on Z/M")
	vfAssert(ExactEquals(g.PointOnSurface().AsGeometry(), g2.PointOnSurface().AsGeometry()), "PointOnSurface does not depend on Z/M")
	vfAssert(g.Envelope() == g2.Envelope() && g.Area() == g2.Area() && g.Length() == g2.Length(), "Envelope, Area and Length do not depend on Z/M")
	vfAssert((g.Validate() == nil) == (g2.Validate() == nil), "validity does not depend on Z/M")
	m1, err1 := Relate(g, g2)
	m2, err2 := Relate(g2, g2)
	vfAssert(err1 == nil && err2 == nil && m1 == m2, "the DE-9IM matrix does not depend on Z/M")
	vfReach("end")
}

// Ordinates of extreme magnitude are printed as plain decimals (no exponent) and
// parse back bit-identically, in every coordinate position.
func vfhC05ExtremeNumerals() {
	vals := []float64{1e-7, 1.5e-7, 5e-324, 2.2250738585072014e-308, 1e21, 1.7976931348623157e308, 123456789012345680000, 9007199254740993, 0.000001, 1e20, -1e-300, -1e300}
	v := vals[vfInt("value", 0, len(vals)-1)]
	ct := vfCT("ct")
	var c Coordinates
	switch vfInt("slot", 0, 3) {
	case 0:
		c = Coordinates{XY: XY{v, 1}, Z: 2, M: 3, Type: ct}
	case 1:
		c = Coordinates{XY: XY{1, v}, Z: 2, M: 3, Type: ct}
	case 2:
		c = Coordinates{XY: XY{1, 2}, Z: v, M: 3, Type: ct}
	default:
		c = Coordinates{XY: XY{1, 2}, Z: 3, M: v, Type: ct}
	}
	g := NewPoint(c).AsGeometry()
	txt := g.AsText()
	for i := 0; i < len(txt); i++ {
		vfAssert(txt[i] != 'e' && txt[i] != 'E' || i < 5, "no exponent form in the printed text")
	}
	back, err := UnmarshalWKT(txt)
	vfAssert(err == nil && vfSameWKB(back, g), "parses back to the same ordinates")
	js, err := g.MarshalJSON()
	vfAssert(err == nil, "MarshalJSON succeeds")
	jb, err := UnmarshalGeoJSON(js)
	vfAssert(err == nil && vfSameWKB(jb, g.ForceCoordinatesType(ct&DimXYZ)), "GeoJSON keeps X, Y and Z bit-identical")
	vfReach("end")
}

// TWKB with decimal ordinates that are exactly on the grid of the precision
// (0.1, 0.3, 0.7 at precision 1; 0.25 at precision 2): the decoded ordinates are
// the nearest float64 of those decimals again - the value is rebuilt from the
// accumulated INTEGER, not from accumulated float deltas - along a line, across
// the members of a multi-geometry, and for closed rings.
func vfhC07Decimals() {
	var wkt string
	prec := 1
	switch vfInt("case", 0, 4) {
	case 0:
		wkt = "LINESTRING(0.1 0.1,0.3 0.3,0.7 0.2,0.9 1.1)"
	case 1:
		wkt = "MULTIPOINT(0.1 0.2,0.3 0.6,0.7 0.7)"
	case 2:
		wkt = "POLYGON((0.1 0.1,0.7 0.1,0.7 0.9,0.1 0.9,0.1 0.1),(0.3 0.3,0.6 0.3,0.6 0.6,0.3 0.3))"
	case 3:
		wkt = "MULTILINESTRING((0.1 0.3,0.2 0.6),(0.3 0.9,1.2 0.7))"
	default:
		wkt, prec = "GEOMETRYCOLLECTION(POINT(0.07 0.29),LINESTRING(0.11 0.13,0.17 0.19,0.23 0.29))", 2
	}
	g, err := UnmarshalWKT(wkt)
	vfAssert(err == nil, "source parses")
	sizeHdr, bbox, closeRings := vfBool("size"), vfBool("bbox"), vfBool("close-rings")
	twkb, err := MarshalTWKB(g, prec, vfOpts(sizeHdr, bbox, closeRings, 0, 0, nil)...)
	vfAssert(err == nil, "marshal succeeds")
	back, err := UnmarshalTWKB(twkb)
	vfAssert(err == nil, "unmarshal succeeds")
	vfAssert(ExactEquals(back, g), "ordinates on the grid of the precision come back exactly")
	if bbox {
		env, has, err := UnmarshalTWKBEnvelope(twkb)
		vfAssert(err == nil && has && env.XYEnvelope == g.Envelope(), "bbox header is the envelope of the decoded geometry")
	}
	vfReach("end")
}

func init() {
	vfHarnesses["C07_precision_grid"] = vfhC07PrecisionGrid
}

// Every admissible combination of XY, Z and M precision (the extended
// precision byte carries Z and M in 3 bits each) on a ZM line whose Z are
// halves and M are quarters: exact at Z precision >= 1 and M precision >= 2.
func vfhC07PrecisionGrid() {
	precXY := []int{0, 1, 5, 7}[vfInt("precision-xy", 0, 3)]
	precZ := []int{1, 2, 3, 4, 5, 6, 7}[vfInt("precision-z", 0, 6)]
	precM := []int{2, 3, 4, 5, 6, 7}[vfInt("precision-m", 0, 5)]
	var wkt string
	switch vfInt("case", 0, 2) {
	case 0:
		wkt = "LINESTRING ZM(1 2 0.5 0.25,3 5 -1.5 0.75,4 4 2.5 -1.25)"
	case 1:
		wkt = "GEOMETRYCOLLECTION ZM(POINT ZM(7 8 1.5 2.25),POLYGON ZM((0 0 0.5 0.25,4 0 1.5 0.5,0 4 -0.5 0.75,0 0 0.5 0.25)))"
	default:
		wkt = "MULTIPOINT Z(1 1 0.5,2 3 -2.5)"
	}
	g, err := UnmarshalWKT(wkt)
	vfAssert(err == nil, "source parses")
	sizeHdr, bbox := vfBool("size"), vfBool("bbox")
	twkb, err := MarshalTWKB(g, precXY, vfOpts(sizeHdr, bbox, false, precZ, precM, nil)...)
	vfAssert(err == nil, "marshal succeeds")
	back, err := UnmarshalTWKB(twkb)
	vfAssert(err == nil, "unmarshal succeeds")
	vfAssert(ExactEquals(back, g), "ordinates on the grid of each precision come back exactly, Z and M included")
	if bbox {
		env, has, err := UnmarshalTWKBEnvelope(twkb)
		vfAssert(err == nil && has && env.XYEnvelope == g.Envelope(), "bbox header is the envelope")
		seq := g.DumpCoordinates()
		zlo, zhi := seq.Get(0).Z, seq.Get(0).Z
		for i := 1; i < seq.Length(); i++ {
			z := seq.Get(i).Z
			if z < zlo {
				zlo = z
			}
			if z > zhi {
				zhi = z
			}
		}
		za, zb, zok := env.ZRange.MinMax()
		vfAssert(zok && za == zlo && zb == zhi, "the Z range of the header is that of the control points")
	}
	vfReach("end")
}
