//go:build verif

package geom

func init() {
	vfHarnesses["C04_shapes"] = vfhC04Shapes
	vfHarnesses["C05_shapes"] = vfhC05Shapes
	vfHarnesses["C06_shapes"] = vfhC06Shapes
	vfHarnesses["C07_shapes"] = vfhC07Shapes
}

// vfShapeZM: one geometry of the shape tables, given distinct Z and M values
// per control point (Z = 100+i, M = -i/4) and forced to a symbolic coordinate
// type: structure from the tables, Z/M bookkeeping from the symbolic type.
func vfShapeZM() (Geometry, CoordinatesType) {
	all := append(append(append([][2]string{}, vfC01Shapes...), vfC02Shapes...), vfC09Extra...)
	k := vfInt("case", 0, len(all)-1)
	side := 0
	if vfBool("second") {
		side = 1
	}
	g, err := UnmarshalWKT(all[k][side])
	vfAssert(err == nil, "operand parses")
	ct := vfCT("ct")
	g = g.ForceCoordinatesType(DimXYZM)
	i := 0.0
	g = vfMapZM(g, func(c Coordinates) Coordinates {
		i++
		c.Z, c.M = 100+i, -i/4
		return c
	})
	return g.ForceCoordinatesType(ct), ct
}

// vfMapZM rebuilds g with f applied to every control point (structure kept).
func vfMapZM(g Geometry, f func(Coordinates) Coordinates) Geometry {
	seqOf := func(s Sequence) Sequence {
		fs := make([]float64, 0, 4*s.Length())
		n := s.Length()
		for i := 0; i < n; i++ {
			c := f(s.Get(i))
			if i == n-1 && n > 1 && s.GetXY(0) == s.GetXY(i) {
				// a closed curve stays closed in Z and M too (TWKB stores a ring's
				// closing point implicitly)
				c.Z, c.M = fs[2], fs[3]
			}
			fs = append(fs, c.X, c.Y, c.Z, c.M)
		}
		return NewSequence(fs, DimXYZM)
	}
	switch g.Type() {
	case TypePoint:
		c, ok := g.MustAsPoint().Coordinates()
		if !ok {
			return g
		}
		return NewPoint(f(c)).AsGeometry()
	case TypeLineString:
		return NewLineString(seqOf(g.MustAsLineString().Coordinates())).AsGeometry()
	case TypePolygon:
		p := g.MustAsPolygon()
		var rings []LineString
		for _, r := range p.DumpRings() {
			rings = append(rings, NewLineString(seqOf(r.Coordinates())))
		}
		return NewPolygon(rings).ForceCoordinatesType(DimXYZM).AsGeometry()
	case TypeMultiPoint:
		m := g.MustAsMultiPoint()
		var pts []Point
		for i := 0; i < m.NumPoints(); i++ {
			pts = append(pts, vfMapZM(m.PointN(i).AsGeometry(), f).MustAsPoint())
		}
		return NewMultiPoint(pts).ForceCoordinatesType(DimXYZM).AsGeometry()
	case TypeMultiLineString:
		m := g.MustAsMultiLineString()
		var ls []LineString
		for i := 0; i < m.NumLineStrings(); i++ {
			ls = append(ls, vfMapZM(m.LineStringN(i).AsGeometry(), f).MustAsLineString())
		}
		return NewMultiLineString(ls).ForceCoordinatesType(DimXYZM).AsGeometry()
	case TypeMultiPolygon:
		m := g.MustAsMultiPolygon()
		var ps []Polygon
		for i := 0; i < m.NumPolygons(); i++ {
			ps = append(ps, vfMapZM(m.PolygonN(i).AsGeometry(), f).MustAsPolygon())
		}
		return NewMultiPolygon(ps).ForceCoordinatesType(DimXYZM).AsGeometry()
	default:
		c := g.MustAsGeometryCollection()
		var gs []Geometry
		for i := 0; i < c.NumGeometries(); i++ {
			gs = append(gs, vfMapZM(c.GeometryN(i), f))
		}
		return NewGeometryCollection(gs).ForceCoordinatesType(DimXYZM).AsGeometry()
	}
}

// WKB: AsBinary / UnmarshalWKB, Value / Scan and a big-endian re-spelling of the
// header-less parts are covered elsewhere; here every table geometry with
// distinct Z/M in a symbolic coordinate type round-trips exactly.
func vfhC04Shapes() {
	g, ct := vfShapeZM()
	wkb := g.AsBinary()
	back, err := UnmarshalWKB(wkb)
	vfAssert(err == nil, "UnmarshalWKB succeeds")
	vfAssert(back.CoordinatesType() == ct && ExactEquals(back, g), "the same geometry, Z and M included")
	vfAssert(string(back.AsBinary()) == string(wkb), "re-encoding gives the same bytes")
	v, err := g.Value()
	vfAssert(err == nil, "Value succeeds")
	var sc Geometry
	vfAssert(sc.Scan(v) == nil && ExactEquals(sc, g), "Scan(Value()) is the identity")
	vfReach("end")
}

func vfhC05Shapes() {
	g, ct := vfShapeZM()
	txt := g.AsText()
	back, err := UnmarshalWKT(txt)
	vfAssert(err == nil, "UnmarshalWKT(AsText()) succeeds")
	vfAssert(back.CoordinatesType() == ct && ExactEquals(back, g), "the same geometry, Z and M included")
	vfAssert(back.AsText() == txt && string(g.AppendWKT(nil)) == txt, "printing is stable; AppendWKT agrees with AsText")
	vfReach("end")
}

func vfhC06Shapes() {
	g, ct := vfShapeZM()
	js, err := g.MarshalJSON()
	vfAssert(err == nil, "MarshalJSON succeeds")
	back, err := UnmarshalGeoJSON(js)
	vfAssert(err == nil, "UnmarshalGeoJSON(MarshalJSON()) succeeds")
	want := g.ForceCoordinatesType(ct & DimXYZ) // M is dropped by the format
	if g.DumpCoordinates().Length() == 0 {
		want = g.Force2D()
	}
	vfAssert(back.CoordinatesType() == want.CoordinatesType(), "Z kept, M dropped")
	vfAssert(ExactEquals(back, want), "the same geometry with the same XY and Z")
	vfReach("end")
}

func vfhC07Shapes() {
	g, ct := vfShapeZM()
	sizeHdr, bbox, closeRings := vfBool("size"), vfBool("bbox"), vfBool("close-rings")
	twkb, err := MarshalTWKB(g, 2, vfOpts(sizeHdr, bbox, closeRings, 0, 2, nil)...)
	vfAssert(err == nil, "marshal succeeds")
	back, err := UnmarshalTWKB(twkb, NoValidate{})
	vfAssert(err == nil, "unmarshal succeeds")
	vfAssert(back.Type() == g.Type() && back.CoordinatesType() == ct, "type and coordinate type")
	// integer X/Y/Z at precision 2/2/0 and M = -i/4 at precision 2 are all exact
	vfAssert(ExactEquals(back, g), "same structure and ordinates (exactly representable at these precisions)")
	sz, has, err := UnmarshalTWKBSize(twkb)
	vfAssert(err == nil && has == (sizeHdr && !g.IsEmpty()) && (!has || sz == len(twkb)), "size header tells the truth")
	env, hasBB, err := UnmarshalTWKBEnvelope(twkb)
	vfAssert(err == nil && hasBB == (bbox && !g.IsEmpty()), "bbox header presence")
	if hasBB {
		vfAssert(env.XYEnvelope == g.Envelope(), "bbox header is the XY envelope")
		// Z and M ranges of the header are those of the control points
		seq := g.DumpCoordinates()
		zlo, zhi, mlo, mhi := 0.0, 0.0, 0.0, 0.0
		for i := 0; i < seq.Length(); i++ {
			c := seq.Get(i)
			if i == 0 || c.Z < zlo {
				zlo = c.Z
			}
			if i == 0 || c.Z > zhi {
				zhi = c.Z
			}
			if i == 0 || c.M < mlo {
				mlo = c.M
			}
			if i == 0 || c.M > mhi {
				mhi = c.M
			}
		}
		a, b, ok := env.ZRange.MinMax()
		vfAssert(ok == ct.Is3D() && (!ok || (a == zlo && b == zhi)), "the header's Z range is the range of the Z ordinates")
		a, b, ok = env.MRange.MinMax()
		vfAssert(ok == ct.IsMeasured() && (!ok || (a == mlo && b == mhi)), "the header's M range is the range of the M ordinates")
	}
	vfReach("end")
}
