//go:build verif

package geom

func init() {
	vfHarnesses["C01_shapes_probe"] = vfhC01ShapesProbe
}

// exact oracles for a symbolic location p against concrete vertices: every
// expression is linear in p, no branch depends on p (vfAnd/vfOr are merged).

// (b-a) x (p-a) in exact real arithmetic
func vfSpecCross(a, b, p XY) float64 {
	return vfSpecSub(vfSpecMul(vfSpecSub(b.X, a.X), vfSpecSub(p.Y, a.Y)), vfSpecMul(vfSpecSub(b.Y, a.Y), vfSpecSub(p.X, a.X)))
}

func vfOnSegC(p, a, b XY) bool {
	cr := vfSpecCross(a, b, p)
	lox, hix, loy, hiy := a.X, b.X, a.Y, b.Y
	if lox > hix {
		lox, hix = hix, lox
	}
	if loy > hiy {
		loy, hiy = hiy, loy
	}
	return vfAnd(cr == 0, vfAnd(vfAnd(p.X >= lox, p.X <= hix), vfAnd(p.Y >= loy, p.Y <= hiy)))
}

// location of p relative to a closed ring (crossing number, exact)
func vfRingLoc(p XY, ring Sequence) (inside, on bool) {
	n := ring.Length()
	for i := 0; i+1 < n; i++ {
		a, b := ring.GetXY(i), ring.GetXY(i+1)
		on = vfOr(on, vfOnSegC(p, a, b))
		if a.Y == b.Y {
			continue
		}
		straddle := (a.Y > p.Y) != (b.Y > p.Y)
		lhs := vfSpecCross(a, b, p)
		var right bool
		if b.Y > a.Y {
			right = lhs > 0
		} else {
			right = lhs < 0
		}
		inside = inside != vfAnd(straddle, right)
	}
	inside = vfAnd(inside, !on)
	return inside, on
}

// vfLocIn: is p in the (closed) point set of g; is p strictly inside an areal part.
func vfLocIn(g Geometry, p XY) (in, arealInterior bool) {
	switch g.Type() {
	case TypePoint:
		xy, ok := g.MustAsPoint().XY()
		if !ok {
			return false, false
		}
		return vfEqXY(p, xy), false
	case TypeLineString:
		seq := g.MustAsLineString().Coordinates()
		for i := 0; i+1 < seq.Length(); i++ {
			in = vfOr(in, vfOnSegC(p, seq.GetXY(i), seq.GetXY(i+1)))
		}
		return in, false
	case TypePolygon:
		poly := g.MustAsPolygon()
		if poly.IsEmpty() {
			return false, false
		}
		extIn, extOn := vfRingLoc(p, poly.ExteriorRing().Coordinates())
		inHole, onHole := false, false
		for i := 0; i < poly.NumInteriorRings(); i++ {
			hi, ho := vfRingLoc(p, poly.InteriorRingN(i).Coordinates())
			inHole, onHole = vfOr(inHole, hi), vfOr(onHole, ho)
		}
		arealInterior = vfAnd(extIn, vfAnd(!inHole, !onHole))
		in = vfAnd(vfOr(extIn, extOn), !inHole)
		return in, arealInterior
	case TypeMultiPoint:
		mp := g.MustAsMultiPoint()
		for i := 0; i < mp.NumPoints(); i++ {
			a, _ := vfLocIn(mp.PointN(i).AsGeometry(), p)
			in = vfOr(in, a)
		}
		return in, false
	case TypeMultiLineString:
		m := g.MustAsMultiLineString()
		for i := 0; i < m.NumLineStrings(); i++ {
			a, _ := vfLocIn(m.LineStringN(i).AsGeometry(), p)
			in = vfOr(in, a)
		}
		return in, false
	case TypeMultiPolygon:
		m := g.MustAsMultiPolygon()
		for i := 0; i < m.NumPolygons(); i++ {
			a, b := vfLocIn(m.PolygonN(i).AsGeometry(), p)
			in, arealInterior = vfOr(in, a), vfOr(arealInterior, b)
		}
		return in, arealInterior
	default:
		c := g.MustAsGeometryCollection()
		for i := 0; i < c.NumGeometries(); i++ {
			a, b := vfLocIn(c.GeometryN(i), p)
			in, arealInterior = vfOr(in, a), vfOr(arealInterior, b)
		}
		return in, arealInterior
	}
}

var vfC01Shapes = [][2]string{
	// a polygon with a hole strictly inside a bigger polygon
	{"POLYGON((0 0,10 0,10 10,0 10,0 0))", "POLYGON((2 2,8 2,8 8,2 8,2 2),(4 4,6 4,6 6,4 6,4 4))"},
	// a polygon nested in the hole of the other
	{"POLYGON((0 0,10 0,10 10,0 10,0 0),(3 3,7 3,7 7,3 7,3 3))", "POLYGON((4 4,6 4,6 6,4 6,4 4))"},
	// a polygon covering part of the hole, sharing part of its boundary
	{"POLYGON((0 0,10 0,10 10,0 10,0 0),(3 3,7 3,7 7,3 7,3 3))", "POLYGON((5 3,9 3,9 9,5 9,5 3))"},
	// squares sharing an edge; touching at a vertex
	{"POLYGON((0 0,4 0,4 4,0 4,0 0))", "POLYGON((4 0,8 0,8 4,4 4,4 0))"},
	{"POLYGON((0 0,4 0,4 4,0 4,0 0))", "POLYGON((4 4,8 4,8 8,4 8,4 4))"},
	// a line through a polygon with a hole; a line along an edge
	{"POLYGON((0 0,10 0,10 10,0 10,0 0),(3 3,7 3,7 7,3 7,3 3))", "LINESTRING(-1 5,11 5)"},
	{"POLYGON((0 0,4 0,4 4,0 4,0 0))", "LINESTRING(-2 0,2 0,2 2,6 2)"},
	// collinear overlapping lines; a hole whose ring touches the shell
	{"LINESTRING(0 0,4 0,4 4)", "MULTILINESTRING((2 0,6 0),(4 2,4 6))"},
	{"POLYGON((0 0,8 0,8 8,0 8,0 0),(0 0,4 2,2 4,0 0))", "POLYGON((1 1,9 1,9 3,1 3,1 1))"},
	// multi-part and mixed operands with overlapping members
	{"MULTIPOLYGON(((0 0,3 0,3 3,0 3,0 0)),((5 5,9 5,9 9,5 9,5 5),(6 6,8 6,8 8,6 8,6 6)))", "POLYGON((2 2,7 2,7 7,2 7,2 2))"},
	{"GEOMETRYCOLLECTION(POLYGON((0 0,4 0,4 4,0 4,0 0)),LINESTRING(2 2,6 2),POINT(8 8),POINT(1 1))", "GEOMETRYCOLLECTION(POLYGON((3 1,7 1,7 3,3 3,3 1)),POINT(8 8),POINT(2 5))"},
	{"MULTIPOINT(1 1,4 2,9 9,5 5)", "POLYGON((0 0,4 0,4 4,0 4,0 0))"},
	// a line that touches itself, duplicate points, collinear ring vertices at a crossing,
	// nested collections, a closed line cut by a polygon, two polygons touching at a covered point
	{"LINESTRING(0 0,4 0,4 4,2 0,2 -2)", "POLYGON((1 -1,3 -1,3 1,1 1,1 -1))"},
	{"MULTIPOINT(1 1,1 1,2 2)", "LINESTRING(0 0,3 3)"},
	{"POLYGON((0 0,2 0,4 0,4 4,2 4,0 4,0 0))", "POLYGON((2 -2,6 -2,6 2,2 2,2 -2))"},
	{"GEOMETRYCOLLECTION(GEOMETRYCOLLECTION(POLYGON((0 0,2 0,2 2,0 2,0 0))),GEOMETRYCOLLECTION(LINESTRING(1 1,5 1)))", "POLYGON((1 0,3 0,3 3,1 3,1 0))"},
	{"LINESTRING(0 0,4 0,4 4,0 4,0 0)", "POLYGON((2 -1,6 -1,6 5,2 5,2 -1))"},
	{"MULTIPOLYGON(((0 0,2 0,2 2,0 2,0 0)),((2 2,4 2,4 4,2 4,2 2)))", "POLYGON((1 1,3 1,3 3,1 3,1 1))"},
	// six squares cut by a rectangle; a polygon with four holes against points and a line
	{"MULTIPOLYGON(((0 0,2 0,2 2,0 2,0 0)),((4 0,6 0,6 2,4 2,4 0)),((8 0,10 0,10 2,8 2,8 0)),((0 4,2 4,2 6,0 6,0 4)),((4 4,6 4,6 6,4 6,4 4)),((8 4,10 4,10 6,8 6,8 4)))", "POLYGON((1 1,9 1,9 5,1 5,1 1))"},
	{"POLYGON((0 0,20 0,20 20,0 20,0 0),(2 2,8 2,8 8,2 8,2 2),(12 12,18 12,18 18,12 18,12 12),(12 2,18 2,18 8,12 8,12 2),(2 12,8 12,8 18,2 18,2 12))", "GEOMETRYCOLLECTION(LINESTRING(-1 5,21 5),MULTIPOINT(5 5,10 10,15 15))"},
	// a line that doubles back over itself and only then crosses the other operand
	{"LINESTRING(0 0,4 0,0 0,0 5)", "POLYGON((-1 2,1 2,1 4,-1 4,-1 2))"},
	{"LINESTRING(0 0,4 0,2 0,2 3)", "LINESTRING(1 2,3 2)"},
	// operands that lie entirely on a coordinate axis (every X, or every Y, is zero)
	{"POINT(0 1)", "POINT(0 2)"},
	{"LINESTRING(0 0,0 1)", "LINESTRING(0 1,0 3)"},
	{"LINESTRING(0 -1,0 2)", "MULTIPOINT(0 1,0 5)"},
	{"LINESTRING(-3 0,4 0)", "LINESTRING(1 0,9 0)"},
	// members of one operand that share ring edges in the same direction
	{"GEOMETRYCOLLECTION(POLYGON((0 0,4 0,4 4,0 4,0 0)),POLYGON((0 0,4 0,4 2,0 2,0 0)))", "POLYGON((1 1,5 1,5 3,1 3,1 1))"},
	// a closed line inside a polygon of the same operand; a polygon with two holes, one covered
	{"GEOMETRYCOLLECTION(POLYGON((0 0,10 0,10 10,0 10,0 0)),LINESTRING(2 2,4 2,4 4,2 4,2 2))", "POINT(3 3)"},
	{"POLYGON((0 0,12 0,12 6,0 6,0 0),(1 1,5 1,5 5,1 5,1 1),(7 1,11 1,11 5,7 5,7 1))", "GEOMETRYCOLLECTION(POLYGON((0 0,6 0,6 6,0 6,0 0)),POLYGON((8 2,10 2,10 4,8 4,8 2)))"},
}

// The four set operations, UnaryUnion and UnionMany on concrete operands that
// exercise holes, nesting, shared edges and mixed dimensions, observed at a
// symbolic location p: membership of p in the result is the Boolean combination
// of its membership in the operands - for every real p in the box, not a sample
// - and the results are valid and satisfy the area laws.
func vfhC01ShapesProbe() {
	k := vfInt("case", 0, len(vfC01Shapes)-1)
	a, err := UnmarshalWKT(vfC01Shapes[k][0])
	vfAssert(err == nil, "operand a parses")
	b, err := UnmarshalWKT(vfC01Shapes[k][1])
	vfAssert(err == nil, "operand b parses")
	if vfBool("swap") {
		a, b = b, a
	}
	p := XY{vfLattice("p.x", 5), vfLattice("p.y", 5)}
	inA, intA := vfLocIn(a, p)
	inB, intB := vfLocIn(b, p)
	bdA, bdB := vfAnd(inA, !intA), vfAnd(inB, !intB) // on a ring, a line or a point of the operand

	u, err := Union(a, b)
	vfAssert(err == nil && u.Validate() == nil, "Union: no error, valid")
	inU, _ := vfLocIn(u, p)
	vfAssert(inU == vfOr(inA, inB), "p in Union(a,b) iff p in a or p in b")

	x, err := Intersection(a, b)
	vfAssert(err == nil && x.Validate() == nil, "Intersection: no error, valid")
	inX, _ := vfLocIn(x, p)
	vfAssert(inX == vfAnd(inA, inB), "p in Intersection(a,b) iff p in a and p in b")

	d, err := Difference(a, b)
	vfAssert(err == nil && d.Validate() == nil, "Difference: no error, valid")
	inD, _ := vfLocIn(d, p)
	vfAssert(vfOr(bdB, inD == vfAnd(inA, !inB)), "off b's boundary: p in Difference(a,b) iff p in a and not in b")
	vfAssert(vfOr(!inD, inA), "Difference(a,b) is inside a")

	s, err := SymmetricDifference(a, b)
	vfAssert(err == nil && s.Validate() == nil, "SymmetricDifference: no error, valid")
	inS, _ := vfLocIn(s, p)
	vfAssert(vfOr(vfOr(bdA, bdB), inS == (inA != inB)), "off the boundaries: p in SymmetricDifference(a,b) iff p in exactly one")

	uu, err := UnaryUnion(NewGeometryCollection([]Geometry{a, b, a}).AsGeometry())
	vfAssert(err == nil && uu.Validate() == nil, "UnaryUnion: no error, valid")
	inUU, _ := vfLocIn(uu, p)
	vfAssert(inUU == vfOr(inA, inB), "p in UnaryUnion(GC(a,b,a)) iff p in a or p in b")

	um, err := UnionMany([]Geometry{b, a, b})
	vfAssert(err == nil && um.Validate() == nil, "UnionMany: no error, valid")
	inUM, _ := vfLocIn(um, p)
	vfAssert(inUM == vfOr(inA, inB), "p in UnionMany(b,a,b) iff p in a or p in b")

	// area laws (lattice operands: every area is a multiple of 1/2, exact)
	// (the area of an operand's point set: members of a collection may overlap)
	pa, err := UnaryUnion(a)
	vfAssert(err == nil, "UnaryUnion(a): no error")
	pb, err := UnaryUnion(b)
	vfAssert(err == nil, "UnaryUnion(b): no error")
	vfAssert(u.Area()+x.Area() == pa.Area()+pb.Area(), "inclusion-exclusion of area")
	vfAssert(d.Area() == pa.Area()-x.Area(), "area(a-b) = area(a) - area(a n b)")
	vfAssert(s.Area() == u.Area()-x.Area(), "area(a sym b) = area(a u b) - area(a n b)")
	vfAssert(uu.Area() == u.Area() && um.Area() == u.Area(), "UnaryUnion and UnionMany have the union's area")
	vfReach("end")
}
