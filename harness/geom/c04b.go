//go:build verif

package geom

func init() {
	vfHarnesses["C04_linestring"] = vfhC04LineString
	vfHarnesses["C04_polygon"] = vfhC04Polygon
	vfHarnesses["C04_multi"] = vfhC04Multi
	vfHarnesses["C04_collection"] = vfhC04Collection
	vfHarnesses["C04_byte_order"] = vfhC04ByteOrder
	vfHarnesses["C04_scan"] = vfhC04Scan
}

// vfGeomBits: structural identity - same type, coordinate type, nesting,
// emptiness, and bit-identical ordinates.
func vfGeomBits(a, b Geometry) bool {
	if a.Type() != b.Type() || a.CoordinatesType() != b.CoordinatesType() {
		return false
	}
	ct := a.CoordinatesType()
	switch a.Type() {
	case TypePoint:
		ca, oka := a.MustAsPoint().Coordinates()
		cb, okb := b.MustAsPoint().Coordinates()
		if oka != okb {
			return false
		}
		if !oka {
			return true
		}
		return vfCoordsForced(ca, cb, ct)
	case TypeLineString:
		return vfSameSeqBits(a.MustAsLineString().Coordinates(), b.MustAsLineString().Coordinates())
	case TypePolygon:
		pa, pb := a.MustAsPolygon(), b.MustAsPolygon()
		if pa.NumRings() != pb.NumRings() {
			return false
		}
		eq := true
		for i := 0; i < pa.NumRings(); i++ {
			ra, rb := pa.ExteriorRing(), pb.ExteriorRing()
			if i > 0 {
				ra, rb = pa.InteriorRingN(i-1), pb.InteriorRingN(i-1)
			}
			eq = vfAnd(eq, vfSameSeqBits(ra.Coordinates(), rb.Coordinates()))
		}
		return eq
	case TypeMultiPoint:
		ma, mb := a.MustAsMultiPoint(), b.MustAsMultiPoint()
		if ma.NumPoints() != mb.NumPoints() {
			return false
		}
		eq := true
		for i := 0; i < ma.NumPoints(); i++ {
			eq = vfAnd(eq, vfGeomBits(ma.PointN(i).AsGeometry(), mb.PointN(i).AsGeometry()))
		}
		return eq
	case TypeMultiLineString:
		ma, mb := a.MustAsMultiLineString(), b.MustAsMultiLineString()
		if ma.NumLineStrings() != mb.NumLineStrings() {
			return false
		}
		eq := true
		for i := 0; i < ma.NumLineStrings(); i++ {
			eq = vfAnd(eq, vfGeomBits(ma.LineStringN(i).AsGeometry(), mb.LineStringN(i).AsGeometry()))
		}
		return eq
	case TypeMultiPolygon:
		ma, mb := a.MustAsMultiPolygon(), b.MustAsMultiPolygon()
		if ma.NumPolygons() != mb.NumPolygons() {
			return false
		}
		eq := true
		for i := 0; i < ma.NumPolygons(); i++ {
			eq = vfAnd(eq, vfGeomBits(ma.PolygonN(i).AsGeometry(), mb.PolygonN(i).AsGeometry()))
		}
		return eq
	default:
		ga, gb := a.MustAsGeometryCollection(), b.MustAsGeometryCollection()
		if ga.NumGeometries() != gb.NumGeometries() {
			return false
		}
		eq := true
		for i := 0; i < ga.NumGeometries(); i++ {
			eq = vfAnd(eq, vfGeomBits(ga.GeometryN(i), gb.GeometryN(i)))
		}
		return eq
	}
}

func vfSameBytes(x, y []byte) bool {
	if len(x) != len(y) {
		return false
	}
	eq := true
	for i := range x {
		eq = vfAnd(eq, x[i] == y[i])
	}
	return eq
}

// vfCheckWKB: decode(encode(g)) is g; re-encoding reproduces the bytes;
// AppendWKB(prefix) = prefix + AsBinary; trailing bytes are ignored.
func vfCheckWKB(g Geometry) {
	wkb := g.AsBinary()
	h, err := UnmarshalWKB(wkb, NoValidate{})
	vfAssert(err == nil, "decode succeeds")
	vfAssert(vfGeomBits(g, h), "decoded geometry is structurally identical with bit-identical ordinates")
	vfAssert(vfSameBytes(h.AsBinary(), wkb), "re-encoding reproduces the bytes")
	pre := []byte{0xAA, 0x55}
	app := g.AppendWKB(pre)
	vfAssert(len(app) == len(wkb)+2 && app[0] == 0xAA && app[1] == 0x55 && vfSameBytes(app[2:], wkb), "AppendWKB(prefix) = prefix + AsBinary")
	trail := append(append([]byte{}, wkb...), vfByte("trail0"), vfByte("trail1"))
	t, err := UnmarshalWKB(trail, NoValidate{})
	vfAssert(err == nil && vfGeomBits(g, t), "trailing bytes are ignored")
}

// vfPointNoNaNXY: a full Point whose X and Y are not NaN (NaN/NaN is how WKB
// spells the empty Point; the property quantifies NaN over Z and M only).
func vfPointNoNaNXY(name string, ct CoordinatesType) Point {
	c := vfCoords(name, ct)
	vfAssume(vfAnd(c.X == c.X, c.Y == c.Y))
	return NewPoint(c)
}

func vfMaybeEmptyPoint(name string, ct CoordinatesType) Point {
	if vfBool(name + ".empty") {
		return NewEmptyPoint(ct)
	}
	return vfPointNoNaNXY(name, ct)
}

func vfhC04LineString() {
	ct := vfCT("ct")
	n := vfInt("n", 0, 3)
	vfCheckWKB(NewLineString(vfSeqF("o", n, ct)).AsGeometry())
	vfReach("end")
}

func vfhC04Polygon() {
	ct := vfCT("ct")
	var rings []LineString
	nr := vfInt("rings", 0, 2)
	for i := 0; i < nr; i++ {
		// rings of 1..4 points: short (invalid) rings must survive NoValidate too
		rings = append(rings, NewLineString(vfSeqF("r", vfInt("pts", 1, 4), ct)))
	}
	p := NewPolygon(rings)
	if nr == 0 {
		p = p.ForceCoordinatesType(ct)
	}
	vfCheckWKB(p.AsGeometry())
	vfReach("end")
}

func vfhC04Multi() {
	ct := vfCT("ct")
	switch vfInt("kind", 0, 3) {
	case 0:
		vfCheckWKB(NewMultiPoint([]Point{vfMaybeEmptyPoint("a", ct), vfMaybeEmptyPoint("b", ct), vfMaybeEmptyPoint("c", ct)}).AsGeometry())
	case 1:
		l := NewLineString(vfSeqF("l", 2, ct))
		e := LineString{}.ForceCoordinatesType(ct)
		if vfBool("empty-first") {
			vfCheckWKB(NewMultiLineString([]LineString{e, l}).AsGeometry())
		} else {
			vfCheckWKB(NewMultiLineString([]LineString{l, e}).AsGeometry())
		}
	case 2:
		p := NewPolygon([]LineString{NewLineString(vfSeqF("r", 4, ct))})
		e := Polygon{}.ForceCoordinatesType(ct)
		if vfBool("empty-first") {
			vfCheckWKB(NewMultiPolygon([]Polygon{e, p}).AsGeometry())
		} else {
			vfCheckWKB(NewMultiPolygon([]Polygon{p, e}).AsGeometry())
		}
	default:
		vfCheckWKB(MultiPoint{}.ForceCoordinatesType(ct).AsGeometry())
		vfCheckWKB(MultiLineString{}.ForceCoordinatesType(ct).AsGeometry())
		vfCheckWKB(MultiPolygon{}.ForceCoordinatesType(ct).AsGeometry())
		vfCheckWKB(GeometryCollection{}.ForceCoordinatesType(ct).AsGeometry())
		vfCheckWKB(Geometry{})
	}
	vfReach("end")
}

// vfMember: a member of symbolic kind for collections.
func vfMember(name string, ct CoordinatesType) Geometry {
	switch vfInt(name+".kind", 0, 4) {
	case 0:
		return vfMaybeEmptyPoint(name, ct).AsGeometry()
	case 1:
		return NewLineString(vfSeqF(name, 2, ct)).AsGeometry()
	case 2:
		return NewMultiPoint([]Point{vfMaybeEmptyPoint(name+"0", ct), vfMaybeEmptyPoint(name+"1", ct)}).AsGeometry()
	case 3:
		return Polygon{}.ForceCoordinatesType(ct).AsGeometry()
	default:
		return GeometryCollection{}.ForceCoordinatesType(ct).AsGeometry()
	}
}

// GeometryCollection of two members of symbolic kind, the second nested one
// level deeper.
func vfhC04Collection() {
	ct := vfCT("ct")
	inner := NewGeometryCollection([]Geometry{vfMember("x", ct)})
	gc := NewGeometryCollection([]Geometry{vfMember("y", ct), inner.AsGeometry()})
	vfCheckWKB(gc.AsGeometry())
	vfReach("end")
}

// vfPutU32 / vfPutF64: an independent writer with a byte-order flag.
func vfPutU32(dst []byte, v uint32, little bool) []byte {
	if little {
		return append(dst, byte(v), byte(v>>8), byte(v>>16), byte(v>>24))
	}
	return append(dst, byte(v>>24), byte(v>>16), byte(v>>8), byte(v))
}

func vfPutF64(dst []byte, f float64, little bool) []byte {
	u := vfBitsOf(f)
	if little {
		for s := 0; s < 64; s += 8 {
			dst = append(dst, byte(u>>uint(s)))
		}
		return dst
	}
	for s := 56; s >= 0; s -= 8 {
		dst = append(dst, byte(u>>uint(s)))
	}
	return dst
}

func vfHeader(dst []byte, code uint32, little bool) []byte {
	if little {
		dst = append(dst, 1)
	} else {
		dst = append(dst, 0)
	}
	return vfPutU32(dst, code, little)
}

// Big-endian and little-endian encodings, chosen independently per element
// (collection, member point, member line), decode to the same value.
func vfhC04ByteOrder() {
	ct := vfCT("ct")
	p := vfPointNoNaNXY("p", ct)
	seq := vfSeqF("l", 2, ct)
	l := NewLineString(seq)
	gc := NewGeometryCollection([]Geometry{p.AsGeometry(), l.AsGeometry()})
	lg, lp, ll := vfBool("le-gc"), vfBool("le-point"), vfBool("le-line")
	base := uint32(ct) * 1000
	buf := vfHeader(nil, base+7, lg)
	buf = vfPutU32(buf, 2, lg)
	buf = vfHeader(buf, base+1, lp)
	c, _ := p.Coordinates()
	buf = vfPutF64(buf, c.X, lp)
	buf = vfPutF64(buf, c.Y, lp)
	if ct.Is3D() {
		buf = vfPutF64(buf, c.Z, lp)
	}
	if ct.IsMeasured() {
		buf = vfPutF64(buf, c.M, lp)
	}
	buf = vfHeader(buf, base+2, ll)
	buf = vfPutU32(buf, 2, ll)
	for i := 0; i < 2; i++ {
		sc := seq.Get(i)
		buf = vfPutF64(buf, sc.X, ll)
		buf = vfPutF64(buf, sc.Y, ll)
		if ct.Is3D() {
			buf = vfPutF64(buf, sc.Z, ll)
		}
		if ct.IsMeasured() {
			buf = vfPutF64(buf, sc.M, ll)
		}
	}
	g, err := UnmarshalWKB(buf, NoValidate{})
	vfAssert(err == nil, "mixed byte orders decode")
	vfAssert(vfGeomBits(g, gc.AsGeometry()), "to the same value")
	if !lg || !lp || !ll {
		vfReach("big-endian")
	}
	vfReach("end")
}

// Value/Scan of the concrete types: round trip, and rejection of a different
// geometry type.
func vfhC04Scan() {
	ct := vfCT("ct")
	ca, cb := vfFiniteCoords("a", ct), vfFiniteCoords("b", ct)
	vfAssume(vfOr(ca.X != cb.X, ca.Y != cb.Y)) // Scan validates: a line needs two distinct points
	pt := NewPoint(ca)
	seq := NewSequence(append(ca.appendFloat64s(nil), cb.appendFloat64s(nil)...), ct)
	ls := NewLineString(seq)
	mp := NewMultiPoint([]Point{NewPoint(ca), NewEmptyPoint(ct), NewPoint(cb)})
	var src Geometry
	k := vfInt("src", 0, 2)
	switch k {
	case 0:
		src = pt.AsGeometry()
	case 1:
		src = ls.AsGeometry()
	default:
		src = mp.AsGeometry()
	}
	v, err := src.Value()
	vfAssert(err == nil, "Value succeeds")
	wkb := v.([]byte)
	var g Geometry
	vfAssert(g.Scan(wkb) == nil && vfGeomBits(g, src), "Geometry.Scan([]byte) round trips")
	var g2 Geometry
	vfAssert(g2.Scan(string(wkb)) == nil && vfGeomBits(g2, src), "Geometry.Scan(string) round trips")
	// the decoded geometry owns its data: a driver may reuse the buffer for the next row
	reuse := append([]byte{}, wkb...)
	var g4 Geometry
	vfAssert(g4.Scan(reuse) == nil, "Scan of a private copy of the bytes")
	for i := range reuse {
		reuse[i] ^= 0x5a
	}
	vfAssert(vfGeomBits(g4, src), "overwriting the scanned buffer afterwards does not change the geometry")
	var g3 Geometry
	vfAssert(g3.Scan(42) != nil, "other source types are rejected")
	var dp Point
	var dl LineString
	var dpoly Polygon
	var dmp MultiPoint
	var dgc GeometryCollection
	vfAssert((dp.Scan(wkb) == nil) == (k == 0), "Point.Scan accepts exactly Points")
	vfAssert((dl.Scan(wkb) == nil) == (k == 1), "LineString.Scan accepts exactly LineStrings")
	vfAssert(dpoly.Scan(wkb) != nil, "Polygon.Scan rejects other types")
	vfAssert((dmp.Scan(wkb) == nil) == (k == 2), "MultiPoint.Scan accepts exactly MultiPoints")
	vfAssert(dgc.Scan(wkb) != nil, "GeometryCollection.Scan rejects other types")
	switch k {
	case 0:
		vfAssert(vfGeomBits(dp.AsGeometry(), src), "scanned Point equals the source")
	case 1:
		vfAssert(vfGeomBits(dl.AsGeometry(), src), "scanned LineString equals the source")
	default:
		vfAssert(vfGeomBits(dmp.AsGeometry(), src), "scanned MultiPoint equals the source")
	}
	var ng NullGeometry
	vfAssert(ng.Scan(nil) == nil && !ng.Valid, "NullGeometry maps nil to Valid=false")
	vfAssert(ng.Scan(wkb) == nil && ng.Valid && vfGeomBits(ng.Geometry, src), "NullGeometry round trips")
	vfReach("end")
}

func init() {
	vfHarnesses["C04_scan_empties"] = vfhC04ScanEmpties
}

// Scan of the seven concrete types on EMPTY geometries of every type and
// coordinate type (and collections holding an empty member): accepted exactly
// when the type matches, the destination - zero or already holding something -
// becomes the scanned geometry with its coordinate type and member structure.
func vfhC04ScanEmpties() {
	srcs := []string{"POINT Z EMPTY", "LINESTRING Z EMPTY", "POLYGON M EMPTY", "MULTIPOINT ZM EMPTY", "MULTIPOINT(EMPTY)",
		"MULTILINESTRING Z EMPTY", "MULTILINESTRING(EMPTY)", "MULTIPOLYGON M EMPTY", "GEOMETRYCOLLECTION(POINT EMPTY)", "GEOMETRYCOLLECTION ZM EMPTY", "POINT EMPTY"}
	src, err := UnmarshalWKT(srcs[vfInt("src", 0, len(srcs)-1)])
	vfAssert(err == nil, "source parses")
	v, err := src.Value()
	vfAssert(err == nil, "Value succeeds")
	wkb := v.([]byte)
	dirty := vfBool("dirty-destination")
	fill := func(wkt string) Geometry {
		if !dirty {
			return Geometry{}
		}
		g, err := UnmarshalWKT(wkt)
		vfAssert(err == nil, "filler parses")
		return g
	}
	var got Geometry
	var scanErr error
	dst := GeometryType(vfInt("destination", 0, 6))
	switch dst {
	case TypePoint:
		d := NewPointXY(1, 2)
		if !dirty {
			d = Point{}
		}
		scanErr = d.Scan(wkb)
		got = d.AsGeometry()
	case TypeLineString:
		var d LineString
		if dirty {
			d = fill("LINESTRING(0 0,1 1)").MustAsLineString()
		}
		scanErr = d.Scan(wkb)
		got = d.AsGeometry()
	case TypePolygon:
		var d Polygon
		if dirty {
			d = fill("POLYGON((0 0,0 1,1 0,0 0))").MustAsPolygon()
		}
		scanErr = d.Scan(wkb)
		got = d.AsGeometry()
	case TypeMultiPoint:
		var d MultiPoint
		if dirty {
			d = fill("MULTIPOINT(0 0,1 1)").MustAsMultiPoint()
		}
		scanErr = d.Scan(wkb)
		got = d.AsGeometry()
	case TypeMultiLineString:
		var d MultiLineString
		if dirty {
			d = fill("MULTILINESTRING((0 0,1 1))").MustAsMultiLineString()
		}
		scanErr = d.Scan(wkb)
		got = d.AsGeometry()
	case TypeMultiPolygon:
		var d MultiPolygon
		if dirty {
			d = fill("MULTIPOLYGON(((0 0,0 1,1 0,0 0)))").MustAsMultiPolygon()
		}
		scanErr = d.Scan(wkb)
		got = d.AsGeometry()
	default:
		var d GeometryCollection
		if dirty {
			d = fill("GEOMETRYCOLLECTION(POINT(1 2))").MustAsGeometryCollection()
		}
		scanErr = d.Scan(wkb)
		got = d.AsGeometry()
	}
	match := src.Type() == dst
	vfAssert((scanErr == nil) == match, "Scan into a concrete type is accepted exactly when the type matches, also for EMPTY geometries")
	if match {
		vfAssert(vfGeomBits(got, src), "the destination becomes the scanned geometry: coordinate type and empty members kept, old contents gone")
		vfReach("accepted")
	} else {
		vfReach("refused")
	}
}
