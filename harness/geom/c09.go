//go:build verif

package geom

func init() {
	vfHarnesses["C09_distance_lines_t"] = vfhC09DistanceLinesT
	vfHarnesses["C09_distance_lines"] = vfhC09DistanceLines
	vfHarnesses["C09_point_point"] = vfhC09PointPoint
	vfHarnesses["C09_point_line"] = vfhC09PointLine
	vfHarnesses["C09_line_line"] = vfhC09LineLine
	vfHarnesses["C09_point_triangle"] = vfhC09PointTriangle
	vfHarnesses["C09_multipoint_line"] = vfhC09MultiPointLine
}

func vfhC09PointPoint() {
	p, q := vfPt("p"), vfPt("q")
	a, b := vfPointXY(p).AsGeometry(), vfPointXY(q).AsGeometry()
	want := vfEqXY(p, q)
	vfAssert(Intersects(a, b) == want, "Intersects(point, point) is equality")
	vfAssert(Intersects(b, a) == want, "symmetric")
	d, ok := Distance(a, b)
	vfAssert(ok, "distance defined for non-empty operands")
	vfAssert((d == 0) == want, "distance zero iff intersecting")
	d2, _ := Distance(b, a)
	vfAssert(d == d2, "distance symmetric")
	vfReach("end")
}

// Intersects(Point, 2-point LineString) == point on closed segment.
func vfhC09PointLine() {
	p, a, b := vfPt("p"), vfPt("a"), vfPt("b")
	vfAssume(!vfEqXY(a, b))
	pg, lg := vfPointXY(p).AsGeometry(), vfLineXY(a, b).AsGeometry()
	want := vfOnSeg(p, a, b)
	vfAssert(Intersects(pg, lg) == want, "Intersects(point, line) is point-on-segment")
	vfAssert(Intersects(lg, pg) == want, "symmetric")
	if want {
		vfReach("on")
	} else {
		vfReach("off")
	}
	vfReach("end")
}

// Intersects(2-point LineString, 2-point LineString) == segments share a point.
func vfhC09LineLine() {
	a, b, c, d := vfPt("a"), vfPt("b"), vfPt("c"), vfPt("d")
	vfAssume(!vfEqXY(a, b))
	vfAssume(!vfEqXY(c, d))
	l1, l2 := vfLineXY(a, b).AsGeometry(), vfLineXY(c, d).AsGeometry()
	want := vfSegsMeet(a, b, c, d)
	vfAssert(Intersects(l1, l2) == want, "Intersects(line, line) is segments-share-a-point")
	vfAssert(Intersects(l2, l1) == want, "symmetric")
	if want {
		vfReach("meet")
	} else {
		vfReach("apart")
	}
	vfReach("end")
}

// Intersects(Point, triangle) == point in closed triangle.
func vfhC09PointTriangle() {
	p, a, b, c := vfPt("p"), vfPt("a"), vfPt("b"), vfPt("c")
	vfAssume(vfCross(a, b, c) != 0)
	pg, tg := vfPointXY(p).AsGeometry(), vfTriangle(a, b, c).AsGeometry()
	want := vfInTriClosed(p, a, b, c)
	vfAssert(Intersects(pg, tg) == want, "Intersects(point, triangle) is point-in-closed-triangle")
	vfAssert(Intersects(tg, pg) == want, "symmetric")
	if want {
		vfReach("inside-or-on")
	} else {
		vfReach("outside")
	}
	vfReach("end")
}

// Intersects(MultiPoint of 2 with an EMPTY member at a symbolic position,
// LineString / MultiLineString / Point / MultiPoint) == some point is shared.
func vfhC09MultiPointLine() {
	p, q, a, b := vfPt("p"), vfPt("q"), vfPt("a"), vfPt("b")
	vfAssume(!vfEqXY(a, b))
	pts := []Point{vfPointXY(p), vfPointXY(q)}
	e := NewEmptyPoint(DimXY)
	switch vfInt("empty-at", 0, 3) {
	case 0:
		pts = []Point{e, pts[0], pts[1]}
	case 1:
		pts = []Point{pts[0], e, pts[1]}
	case 2:
		pts = []Point{pts[0], pts[1], e}
	}
	mp := NewMultiPoint(pts).AsGeometry()
	var other Geometry
	var want bool
	switch vfInt("other", 0, 3) {
	case 0:
		other, want = vfLineXY(a, b).AsGeometry(), vfOr(vfOnSeg(p, a, b), vfOnSeg(q, a, b))
	case 1:
		other, want = NewMultiLineString([]LineString{LineString{}, vfLineXY(a, b)}).AsGeometry(), vfOr(vfOnSeg(p, a, b), vfOnSeg(q, a, b))
	case 2:
		other, want = vfPointXY(a).AsGeometry(), vfOr(vfEqXY(p, a), vfEqXY(q, a))
	default:
		other, want = NewMultiPoint([]Point{e, vfPointXY(a), vfPointXY(b)}).AsGeometry(), vfOr(vfOr(vfEqXY(p, a), vfEqXY(q, a)), vfOr(vfEqXY(p, b), vfEqXY(q, b)))
	}
	vfAssert(Intersects(mp, other) == want, "Intersects(MultiPoint, other) is some-point-shared, whatever the position of the EMPTY member")
	vfAssert(Intersects(other, mp) == want, "symmetric")
	vfReach("end")
}

// Distance(2-point line, 2-point line) for disjoint segments is the least of
// the four end-point-to-segment distances (each computed by the library's own
// point-segment kernel, so the comparison is exact: the same rounded values are
// compared), in both argument orders.
func vfhC09DistanceLines() {
	a, b, c, d := vfPt("a"), vfPt("b"), vfPt("c"), vfPt("d")
	vfAssume(!vfEqXY(a, b))
	vfAssume(!vfEqXY(c, d))
	vfAssume(!vfSegsMeet(a, b, c, d))
	l1, l2 := vfLineXY(a, b).AsGeometry(), vfLineXY(c, d).AsGeometry()
	got, ok := Distance(l1, l2)
	vfAssert(ok, "defined for non-empty operands")
	rev, ok := Distance(l2, l1)
	vfAssert(ok, "defined for non-empty operands (reversed)")
	k := [4]float64{
		distBetweenXYAndLine(a, line{c, d}),
		distBetweenXYAndLine(b, line{c, d}),
		distBetweenXYAndLine(c, line{a, b}),
		distBetweenXYAndLine(d, line{a, b}),
	}
	for i := range k {
		vfAssert(got <= k[i], "Distance is at most each end-point-to-segment distance")
		vfAssert(rev <= k[i], "Distance (reversed operands) is at most each end-point-to-segment distance")
	}
	vfAssert(vfOr(vfOr(got == k[0], got == k[1]), vfOr(got == k[2], got == k[3])), "Distance is one of the four end-point-to-segment distances")
	vfAssert(got == rev, "symmetric")
	vfReach("end")
}

// vfStubDistUF replaces geom.distBetweenXYAndLine in C09_distance_lines: an
// arbitrary non-negative function of the point and the segment.
func vfStubDistUF(xy XY, ln line) float64 {
	r := vfOpaque("dxl", xy.X, xy.Y, ln.a.X, ln.a.Y, ln.b.X, ln.b.Y)
	vfAssume(r >= 0)
	return r
}

// Quick variant of vfhC09DistanceLines: six concrete pairs of segments - in
// four of them a different one of the four end points is strictly the closest
// to the interior of the other segment - moved by a common symbolic lattice
// translation (all tests are then linear); the kernel is still arbitrary, so
// every ordering of the four kernel values is covered symbolically, and a
// counterexample replays natively on the pair where that end point matters.
func vfhC09DistanceLinesT() {
	t := vfPt("t")
	var q [4]XY
	switch vfInt("pair", 0, 5) {
	case 0:
		q = [4]XY{{5, 1}, {5, 10}, {0, 0}, {10, 0}}
	case 1:
		q = [4]XY{{5, 10}, {5, 1}, {0, 0}, {10, 0}}
	case 2:
		q = [4]XY{{0, 0}, {10, 0}, {5, 1}, {5, 10}}
	case 3:
		q = [4]XY{{0, 0}, {10, 0}, {5, 10}, {5, 1}}
	case 4:
		q = [4]XY{{0, 0}, {3, 4}, {6, 0}, {9, -2}}
	default:
		q = [4]XY{{0, 0}, {4, 0}, {1, 2}, {3, 2}}
	}
	for i := range q {
		q[i] = XY{q[i].X + t.X, q[i].Y + t.Y}
	}
	a, b, c, d := q[0], q[1], q[2], q[3]
	vfAssume(!vfSegsMeet(a, b, c, d))
	l1, l2 := vfLineXY(a, b).AsGeometry(), vfLineXY(c, d).AsGeometry()
	got, ok := Distance(l1, l2)
	vfAssert(ok, "defined for non-empty operands")
	rev, ok := Distance(l2, l1)
	vfAssert(ok, "defined for non-empty operands (reversed)")
	k := [4]float64{
		distBetweenXYAndLine(a, line{c, d}),
		distBetweenXYAndLine(b, line{c, d}),
		distBetweenXYAndLine(c, line{a, b}),
		distBetweenXYAndLine(d, line{a, b}),
	}
	for i := range k {
		vfAssert(got <= k[i], "Distance is at most each end-point-to-segment distance")
		vfAssert(rev <= k[i], "Distance (reversed operands) is at most each end-point-to-segment distance")
	}
	vfAssert(vfOr(vfOr(got == k[0], got == k[1]), vfOr(got == k[2], got == k[3])), "Distance is one of the four end-point-to-segment distances")
	vfAssert(got == rev, "symmetric")
	vfReach("end")
}
