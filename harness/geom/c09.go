//go:build verif

package geom

func init() {
	vfHarnesses["C09_point_point"] = vfhC09PointPoint
	vfHarnesses["C09_point_line"] = vfhC09PointLine
	vfHarnesses["C09_line_line"] = vfhC09LineLine
	vfHarnesses["C09_point_triangle"] = vfhC09PointTriangle
	vfHarnesses["C09_multipoint_line"] = vfhC09MultiPointLine
}

func vfhC09PointPoint() {
	p, q := vfPt("p"), vfPt("q")
	a, b := vfPointXY(p).AsGeometry(), vfPointXY(q).AsGeometry()
	want := vfEqXY(p, q)
	vfAssert(Intersects(a, b) == want, "Intersects(point, point) is equality")
	vfAssert(Intersects(b, a) == want, "symmetric")
	d, ok := Distance(a, b)
	vfAssert(ok, "distance defined for non-empty operands")
	vfAssert((d == 0) == want, "distance zero iff intersecting")
	d2, _ := Distance(b, a)
	vfAssert(d == d2, "distance symmetric")
	vfReach("end")
}

// Intersects(Point, 2-point LineString) == point on closed segment.
func vfhC09PointLine() {
	p, a, b := vfPt("p"), vfPt("a"), vfPt("b")
	vfAssume(!vfEqXY(a, b))
	pg, lg := vfPointXY(p).AsGeometry(), vfLineXY(a, b).AsGeometry()
	want := vfOnSeg(p, a, b)
	vfAssert(Intersects(pg, lg) == want, "Intersects(point, line) is point-on-segment")
	vfAssert(Intersects(lg, pg) == want, "symmetric")
	if want {
		vfReach("on")
	} else {
		vfReach("off")
	}
	vfReach("end")
}

// Intersects(2-point LineString, 2-point LineString) == segments share a point.
func vfhC09LineLine() {
	a, b, c, d := vfPt("a"), vfPt("b"), vfPt("c"), vfPt("d")
	vfAssume(!vfEqXY(a, b))
	vfAssume(!vfEqXY(c, d))
	l1, l2 := vfLineXY(a, b).AsGeometry(), vfLineXY(c, d).AsGeometry()
	want := vfSegsMeet(a, b, c, d)
	vfAssert(Intersects(l1, l2) == want, "Intersects(line, line) is segments-share-a-point")
	vfAssert(Intersects(l2, l1) == want, "symmetric")
	if want {
		vfReach("meet")
	} else {
		vfReach("apart")
	}
	vfReach("end")
}

// Intersects(Point, triangle) == point in closed triangle.
func vfhC09PointTriangle() {
	p, a, b, c := vfPt("p"), vfPt("a"), vfPt("b"), vfPt("c")
	vfAssume(vfCross(a, b, c) != 0)
	pg, tg := vfPointXY(p).AsGeometry(), vfTriangle(a, b, c).AsGeometry()
	want := vfInTriClosed(p, a, b, c)
	vfAssert(Intersects(pg, tg) == want, "Intersects(point, triangle) is point-in-closed-triangle")
	vfAssert(Intersects(tg, pg) == want, "symmetric")
	if want {
		vfReach("inside-or-on")
	} else {
		vfReach("outside")
	}
	vfReach("end")
}

// Intersects(MultiPoint of 2 with an EMPTY member at a symbolic position,
// LineString / MultiLineString / Point / MultiPoint) == some point is shared.
func vfhC09MultiPointLine() {
	p, q, a, b := vfPt("p"), vfPt("q"), vfPt("a"), vfPt("b")
	vfAssume(!vfEqXY(a, b))
	pts := []Point{vfPointXY(p), vfPointXY(q)}
	e := NewEmptyPoint(DimXY)
	switch vfInt("empty-at", 0, 3) {
	case 0:
		pts = []Point{e, pts[0], pts[1]}
	case 1:
		pts = []Point{pts[0], e, pts[1]}
	case 2:
		pts = []Point{pts[0], pts[1], e}
	}
	mp := NewMultiPoint(pts).AsGeometry()
	var other Geometry
	var want bool
	switch vfInt("other", 0, 3) {
	case 0:
		other, want = vfLineXY(a, b).AsGeometry(), vfOr(vfOnSeg(p, a, b), vfOnSeg(q, a, b))
	case 1:
		other, want = NewMultiLineString([]LineString{LineString{}, vfLineXY(a, b)}).AsGeometry(), vfOr(vfOnSeg(p, a, b), vfOnSeg(q, a, b))
	case 2:
		other, want = vfPointXY(a).AsGeometry(), vfOr(vfEqXY(p, a), vfEqXY(q, a))
	default:
		other, want = NewMultiPoint([]Point{e, vfPointXY(a), vfPointXY(b)}).AsGeometry(), vfOr(vfOr(vfEqXY(p, a), vfEqXY(q, a)), vfOr(vfEqXY(p, b), vfEqXY(q, b)))
	}
	vfAssert(Intersects(mp, other) == want, "Intersects(MultiPoint, other) is some-point-shared, whatever the position of the EMPTY member")
	vfAssert(Intersects(other, mp) == want, "symmetric")
	vfReach("end")
}
