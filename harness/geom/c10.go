//go:build verif

package geom

func init() {
	vfHarnesses["C10_map_order_all"] = vfhC10MapOrder
	vfHarnesses["C10_map_order_shapes"] = vfhC10MapOrderShapes
	vfHarnesses["C10_frozen_inputs"] = vfhC10FrozenInputs
	vfHarnesses["C10_aliasing"] = vfhC10Aliasing
	vfHarnesses["C10_map_order"] = vfhC10MapOrder
}

// Every operation below runs with its operands frozen: the engine reports any
// store into memory reachable from them (and any store to package-level state
// of geom/rtree) on any path as a frozen-write violation.
func vfhC10FrozenInputs() {
	a, b, c, d := vfPt("a"), vfPt("b"), vfPt("c"), vfPt("d")
	vfAssume(vfCross(a, b, c) != 0)
	mp := vfMultiPointXY(c, a, b, a).AsGeometry()
	ls := vfLineXY(a, b, c).AsGeometry()
	tri := vfTriangle(a, b, c).AsGeometry()
	pt := vfPointXY(d).AsGeometry()
	gc := NewGeometryCollection([]Geometry{mp, ls, pt}).AsGeometry()
	vfFreeze(mp)
	vfFreeze(ls)
	vfFreeze(tri)
	vfFreeze(pt)
	vfFreeze(gc)
	wkbBefore := gc.AsBinary()

	// one operation per path (symbolic choice), so that the forks of the
	// operations add up instead of multiplying
	switch vfInt("op", 0, 24) {
	case 0:
		_ = mp.ConvexHull() // sorts a private copy of the points
	case 1:
		_ = ls.ConvexHull()
	case 2:
		_ = tri.ConvexHull()
	case 3:
		_ = ls.Reverse()
		_ = tri.Reverse()
	case 4:
		_ = tri.ForceCW()
		_ = tri.ForceCCW()
	case 5:
		_ = gc.Envelope()
	case 6:
		_ = gc.Validate()
	case 7:
		_ = tri.Validate()
	case 8:
		_, _ = ls.IsSimple()
	case 9:
		_ = Intersects(ls, pt)
	case 10:
		_ = Intersects(pt, mp)
	case 11:
		_ = Intersects(mp, ls)
	case 12:
		_ = gc.Boundary()
	case 13:
		_ = gc.Dump()
		_ = gc.DumpCoordinates()
	case 14:
		_ = gc.Force2D()
		_ = gc.ForceCoordinatesType(DimXYZM)
	case 15:
		_ = gc.TransformXY(func(p XY) XY { return XY{p.Y, p.X} })
	case 16:
		_ = tri.Area()
	case 17:
		_ = gc.AsText()
	case 18:
		_ = gc.AppendWKB(nil)
	case 19:
		_ = tri.MustAsPolygon().Coordinates()
		_ = mp.MustAsMultiPoint().Coordinates()
	case 20:
		_ = ExactEquals(mp, mp, IgnoreOrder)
	case 21:
		_ = ExactEquals(ls, ls, IgnoreOrder)
	case 22:
		_ = ls.PointOnSurface()
	case 23:
		_ = ls.Centroid()
	default:
		_ = mp.PointOnSurface()
	}

	wkbAfter := gc.AsBinary()
	vfAssert(len(wkbBefore) == len(wkbAfter), "same WKB length afterwards")
	same := true
	for i := range wkbBefore {
		same = vfAnd(same, wkbBefore[i] == wkbAfter[i])
	}
	vfAssert(same, "same WKB afterwards")
	vfReach("end")
}

// Constructors copy the slices they are given and accessors hand out copies:
// mutating either does not change the geometry.
func vfhC10Aliasing() {
	a, b, c, z := vfPt("a"), vfPt("b"), vfPt("c"), vfPt("z")
	rings := []LineString{vfLineXY(a, b, c, a)}
	poly := NewPolygon(rings)
	before := poly.AsBinary()
	rings[0] = vfLineXY(z, z, z, z)
	same := func(x, y []byte) bool {
		if len(x) != len(y) {
			return false
		}
		eq := true
		for i := range x {
			eq = vfAnd(eq, x[i] == y[i])
		}
		return eq
	}
	vfAssert(same(before, poly.AsBinary()), "NewPolygon copies the ring slice")

	pts := []Point{vfPointXY(a), vfPointXY(b)}
	mp := NewMultiPoint(pts)
	before = mp.AsBinary()
	pts[0] = vfPointXY(z)
	vfAssert(same(before, mp.AsBinary()), "NewMultiPoint copies the point slice")

	lines := []LineString{vfLineXY(a, b), vfLineXY(b, c)}
	mls := NewMultiLineString(lines)
	before = mls.AsBinary()
	lines[1] = vfLineXY(z, z)
	vfAssert(same(before, mls.AsBinary()), "NewMultiLineString copies the line slice")

	geoms := []Geometry{vfPointXY(a).AsGeometry(), vfLineXY(a, b).AsGeometry()}
	gc := NewGeometryCollection(geoms)
	before = gc.AsBinary()
	geoms[0] = vfPointXY(z).AsGeometry()
	vfAssert(same(before, gc.AsBinary()), "NewGeometryCollection copies the member slice")

	floats := []float64{a.X, a.Y, b.X, b.Y}
	seq := NewSequence(floats, DimXY)
	_ = seq
	// NewSequence documents that it takes ownership of the slice: not part of the property.

	dump := gc.Dump()
	dump[0] = vfPointXY(z).AsGeometry()
	vfAssert(same(before, gc.AsBinary()), "Dump returns a private slice")
	coords := mls.Coordinates()
	coords[0] = NewSequence([]float64{z.X, z.Y, z.X, z.Y}, DimXY)
	vfAssert(same(mls.AsBinary(), NewMultiLineString([]LineString{vfLineXY(a, b), vfLineXY(b, c)}).AsBinary()), "Coordinates returns a private slice")
	vfReach("end")
}

// Determinism under map iteration order: the same overlay operation is run
// twice; the engine rotates the iteration order of one `range` over a map (the
// k-th one executed on the path, k and the rotation given by the harness table)
// so that exactly one of the two runs sees a different order. The results must
// be bit-identical (same WKB, same DE-9IM code).
func vfhC10MapOrder() {
	p1, p2 := vfPtO("p1"), vfPtO("p2")
	a, b := vfPointXY(p1).AsGeometry(), vfPointXY(p2).AsGeometry()
	u1, err1 := SymmetricDifference(a, b)
	m1, errm1 := Relate(a, b)
	vfMapOrderMark()
	u2, err2 := SymmetricDifference(a, b)
	m2, errm2 := Relate(a, b)
	vfAssert(err1 == nil && err2 == nil && errm1 == nil && errm2 == nil, "no errors")
	vfAssert(m1 == m2, "same DE-9IM code whatever the map iteration order")
	w1, w2 := u1.AsBinary(), u2.AsBinary()
	vfAssert(len(w1) == len(w2), "same WKB length whatever the map iteration order")
	same := true
	for i := range w1 {
		if i < len(w2) {
			same = vfAnd(same, w1[i] == w2[i])
		}
	}
	vfAssert(same, "same WKB whatever the map iteration order")
	vfReach("end")
}

// Determinism under map iteration order, concrete operands with closed lines,
// touching rings and overlapping polygons: the operation is computed once in
// insertion order and once - after vfMapOrderMark - with every range over a map
// rotated or reversed (schedule given by the harness table). Results must be
// bit-identical.
func vfhC10MapOrderShapes() {
	var wa, wb string
	switch vfInt("case", 0, 10) {
	case 10: // two holes that start at the same (lowest) vertex
		wa, wb = "POLYGON((0 0,10 0,10 10,0 10,0 0),(2 5,6 7,6 6,2 5),(2 5,6 4,6 3,2 5))", "POLYGON((20 20,21 20,21 21,20 20))"
	case 8: // overlapping members, a covered hole and a far member in one operand
		wa, wb = "GEOMETRYCOLLECTION(POLYGON((0 0,10 0,10 10,0 10,0 0)),POLYGON((2 2,8 2,8 8,2 8,2 2),(4 4,6 4,6 6,4 6,4 4)),POLYGON((20 20,22 20,22 22,20 22,20 20)))", "POINT(30 30)"
	case 9: // three mutually overlapping members and a line through them
		wa, wb = "GEOMETRYCOLLECTION(POLYGON((0 0,6 0,6 6,0 6,0 0)),POLYGON((2 2,8 2,8 8,2 8,2 2)),POLYGON((4 -2,10 -2,10 4,4 4,4 -2)))", "LINESTRING(-2 3,12 3)"
	case 6: // two polygons whose rings start at the same (lowest) vertex
		wa, wb = "POLYGON((0 0,2 1,1 2,0 0))", "POLYGON((0 0,1 -2,2 -1,0 0))"
	case 7: // three lines and two holes meeting at shared vertices
		wa, wb = "POLYGON((0 0,8 0,8 8,0 8,0 0),(2 2,4 2,3 4,2 2),(4 2,6 2,5 4,4 2))", "MULTILINESTRING((4 2,4 -2),(4 2,9 9),(1 1,4 2))"
	case 0:
		wa, wb = "LINESTRING(0 0,1 0,1 1,0 0)", "POINT(-5 -3)"
	case 1:
		wa, wb = "LINESTRING(0 0,1 1,1 2,0 0)", "LINESTRING(0 0,-1 -1,-1 -2,0 0)"
	case 2:
		wa, wb = "LINESTRING(2 2,4 2,4 4,2 4,2 2)", "POLYGON((-10 -9,-9 -9,-9 -8,-10 -9))"
	case 3:
		wa, wb = "POLYGON((0 0,4 0,4 4,0 4,0 0))", "POLYGON((2 2,6 2,6 6,2 6,2 2))"
	case 4:
		wa, wb = "MULTIPOINT(3 3,1 1,2 2,0 0)", "LINESTRING(0 0,2 2,2 0,0 2)"
	default:
		wa, wb = "GEOMETRYCOLLECTION(LINESTRING(0 0,2 0,2 2,0 2,0 0),POINT(5 5),POINT(1 1))", "LINESTRING(1 -1,1 3)"
	}
	a, err := UnmarshalWKT(wa)
	vfAssert(err == nil, "operand a parses")
	b, err := UnmarshalWKT(wb)
	vfAssert(err == nil, "operand b parses")
	op := vfInt("op", 0, 5)
	run := func() (Geometry, string) {
		var g Geometry
		var err error
		switch op {
		case 0:
			g, err = Union(a, b)
		case 1:
			g, err = Intersection(a, b)
		case 2:
			g, err = Difference(a, b)
		case 3:
			g, err = SymmetricDifference(a, b)
		case 4:
			g, err = UnaryUnion(a)
		default:
			g, err = UnionMany([]Geometry{b, a, b})
		}
		vfAssert(err == nil, "no error")
		m, err := Relate(a, b)
		vfAssert(err == nil, "no error from Relate")
		return g, m
	}
	g1, m1 := run()
	vfMapOrderMark()
	g2, m2 := run()
	vfAssert(m1 == m2, "same DE-9IM code whatever the map iteration order")
	w1, w2 := g1.AsBinary(), g2.AsBinary()
	vfAssert(string(w1) == string(w2), "same WKB whatever the map iteration order")
	vfReach("end")
}
