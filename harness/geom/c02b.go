//go:build verif

package geom

func init() {
	vfHarnesses["C02_relate_shapes"] = vfhC02RelateShapes
}

// vfLoc3: OGC interior / boundary membership of a symbolic location p for a
// concrete geometry whose members are pairwise disjoint or touch only at their
// boundaries (exterior = neither). Lineal boundaries follow the mod-2 rule.
func vfLoc3(g Geometry, p XY) (interior, boundary bool) {
	switch g.Type() {
	case TypePoint, TypeMultiPoint:
		in, _ := vfLocIn(g, p)
		return in, false
	case TypeLineString, TypeMultiLineString:
		var lines []LineString
		if g.IsLineString() {
			lines = []LineString{g.MustAsLineString()}
		} else {
			m := g.MustAsMultiLineString()
			for i := 0; i < m.NumLineStrings(); i++ {
				lines = append(lines, m.LineStringN(i))
			}
		}
		count := map[XY]int{}
		var order []XY
		for _, ls := range lines {
			seq := ls.Coordinates()
			if seq.Length() < 2 || ls.IsClosed() {
				continue
			}
			for _, e := range []XY{seq.GetXY(0), seq.GetXY(seq.Length() - 1)} {
				if count[e] == 0 {
					order = append(order, e)
				}
				count[e]++
			}
		}
		for _, e := range order {
			if count[e]%2 == 1 {
				boundary = vfOr(boundary, vfEqXY(p, e))
			}
		}
		in, _ := vfLocIn(g, p)
		return vfAnd(in, !boundary), boundary
	case TypePolygon, TypeMultiPolygon:
		in, strict := vfLocIn(g, p)
		return strict, vfAnd(in, !strict)
	default:
		c := g.MustAsGeometryCollection()
		for i := 0; i < c.NumGeometries(); i++ {
			a, b := vfLoc3(c.GeometryN(i), p)
			interior, boundary = vfOr(interior, a), vfOr(boundary, b)
		}
		return interior, vfAnd(boundary, !interior)
	}
}

func vfPart(g Geometry, p XY, part int) bool {
	in, bd := vfLoc3(g, p)
	switch part {
	case 0:
		return in
	case 1:
		return bd
	default:
		return vfAnd(!in, !bd)
	}
}

var vfC02Shapes = [][2]string{
	{"POLYGON((0 0,4 0,4 4,0 4,0 0))", "POLYGON((2 2,6 2,6 6,2 6,2 2))"},                         // overlap
	{"POLYGON((0 0,4 0,4 4,0 4,0 0))", "POLYGON((4 0,8 0,8 4,4 4,4 0))"},                         // share an edge
	{"POLYGON((0 0,4 0,4 4,0 4,0 0))", "POLYGON((4 4,8 4,8 8,4 8,4 4))"},                         // touch at a vertex
	{"POLYGON((0 0,8 0,8 8,0 8,0 0))", "POLYGON((0 0,4 0,4 4,0 4,0 0))"},                         // covers, sharing boundary
	{"POLYGON((0 0,8 0,8 8,0 8,0 0),(2 2,6 2,6 6,2 6,2 2))", "POLYGON((3 3,5 3,5 5,3 5,3 3))"},   // in the hole
	{"POLYGON((0 0,8 0,8 8,0 8,0 0),(2 2,6 2,6 6,2 6,2 2))", "POLYGON((2 2,6 2,6 6,2 6,2 2))"},   // fills the hole
	{"POLYGON((0 0,8 0,8 8,0 8,0 0),(2 2,6 2,6 6,2 6,2 2))", "LINESTRING(-1 4,9 4)"},             // line across the hole
	{"POLYGON((0 0,4 0,4 4,0 4,0 0))", "LINESTRING(0 0,4 0,4 2)"},                                // line along the boundary
	{"POLYGON((0 0,4 0,4 4,0 4,0 0))", "LINESTRING(1 1,3 3)"},                                    // line inside
	{"POLYGON((0 0,4 0,4 4,0 4,0 0))", "LINESTRING(2 2,6 2)"},                                    // line leaves
	{"LINESTRING(0 0,4 4)", "LINESTRING(0 4,4 0)"},                                               // cross
	{"LINESTRING(0 0,4 0)", "LINESTRING(2 0,6 0)"},                                               // collinear overlap
	{"LINESTRING(0 0,4 0)", "LINESTRING(4 0,4 4)"},                                               // touch at end points
	{"LINESTRING(0 0,4 0)", "LINESTRING(2 0,2 4)"},                                               // end point on interior
	{"LINESTRING(0 0,4 0,4 4,0 0)", "LINESTRING(0 0,-2 -2)"},                                     // closed line (no boundary) touched at its start
	{"MULTILINESTRING((0 0,2 2),(2 0,2 4),(2 2,4 4))", "POINT(2 2)"},                             // mod-2: interior
	{"MULTILINESTRING((0 0,2 2),(2 2,4 0),(2 2,2 5))", "POINT(2 2)"},                             // mod-2: three ends, boundary
	{"POLYGON((0 0,4 0,4 4,0 4,0 0))", "MULTIPOINT(0 0,2 2,9 9)"},                                // points on vertex, inside, outside
	{"LINESTRING(0 0,4 0)", "MULTIPOINT(0 0,2 0)"},                                               // points on end and interior
	{"MULTIPOLYGON(((0 0,2 0,2 2,0 2,0 0)),((2 2,4 2,4 4,2 4,2 2)))", "LINESTRING(0 2,2 2,4 2)"}, // line through the touching vertex
	{"GEOMETRYCOLLECTION(POLYGON((0 0,2 0,2 2,0 2,0 0)),LINESTRING(3 0,5 0),POINT(7 7))", "LINESTRING(1 1,5 -1,7 7)"},
	// operands lying entirely on a coordinate axis
	{"POINT(0 2)", "POINT(0 3)"},
	{"LINESTRING(0 0,0 1)", "LINESTRING(0 2,0 3)"},
	{"LINESTRING(0 0,0 2)", "LINESTRING(0 1,0 3)"},
	{"LINESTRING(0 -1,0 2)", "POINT(0 1)"},
	{"LINESTRING(-1 0,2 0)", "MULTIPOINT(1 0,5 0)"},
	// the only contact is an end vertex of one line strictly inside a segment of the other
	{"LINESTRING(0 0,4 0)", "LINESTRING(2 3,2 0)"},
	{"LINESTRING(0 0,4 0)", "LINESTRING(2 0,2 3)"},
	{"POLYGON((0 0,4 0,0 4,0 0))", "LINESTRING(5 5,6 5,6 6,5 6,2 2)"},
	{"LINESTRING(0 0,4 0,4 4)", "MULTILINESTRING((1 3,1 0),(6 2,4 2))"},
}

// Relate on concrete operands against the definition, cell by cell: a cell is
// 'F' exactly when NO real location lies in the corresponding parts of both
// operands - the 'F' direction is a universal statement over a symbolic
// location, the other direction an existential one; both are solver queries
// over exact oracles. Transpose and the named predicates are checked on the
// same matrix.
func vfhC02RelateShapes() {
	k := vfInt("case", 0, len(vfC02Shapes)-1)
	a, err := UnmarshalWKT(vfC02Shapes[k][0])
	vfAssert(err == nil, "operand a parses")
	b, err := UnmarshalWKT(vfC02Shapes[k][1])
	vfAssert(err == nil, "operand b parses")
	if vfBool("swap") {
		a, b = b, a
	}
	m, err := Relate(a, b)
	vfAssert(err == nil && len(m) == 9, "Relate: no error, nine cells")
	rev, err := Relate(b, a)
	vfAssert(err == nil && rev == vfTransposeCode(m), "Relate(b,a) is the transpose")
	p := XY{vfLattice("p.x", 4), vfLattice("p.y", 4)}
	names := [3]string{"I", "B", "E"}
	for r := 0; r < 3; r++ {
		for c := 0; c < 3; c++ {
			cell := names[r] + names[c]
			if m[3*r+c] == 'F' {
				vfAssert(!vfAnd(vfPart(a, p, r), vfPart(b, p, c)), "cell "+cell+" is F: no location lies in both parts")
			} else {
				r, c := r, c
				vfExistsXY("cell "+cell+" is not F: some location lies in both parts", 4, func(q XY) bool {
					return vfAnd(vfPart(a, q, r), vfPart(b, q, c))
				})
			}
		}
	}
	// dimension digits: never more than the smaller of the two parts; when one
	// of the two parts is an open set of the plane (an areal interior, any
	// exterior) and the other is pure-dimensional, a non-empty intersection has
	// the other part's dimension.
	partDim := func(g Geometry, part int) (dim int, open bool) {
		d := g.Dimension()
		switch part {
		case 0:
			return d, d == 2
		case 1:
			return d - 1, false
		default:
			return 2, true
		}
	}
	pure := !a.IsGeometryCollection() && !b.IsGeometryCollection()
	for r := 0; r < 3; r++ {
		for c := 0; c < 3; c++ {
			ch := m[3*r+c]
			if ch == 'F' {
				continue
			}
			da, oa := partDim(a, r)
			db, ob := partDim(b, c)
			lo := da
			if db < lo {
				lo = db
			}
			vfAssert(ch >= '0' && int(ch-'0') <= lo, "a cell's dimension is at most that of both parts")
			if pure && (oa || ob) {
				vfAssert(int(ch-'0') == lo, "a non-empty intersection with an open part has the other part's dimension")
			}
		}
	}
	// named predicates follow from the matrix
	check := func(name string, f func(Geometry, Geometry) (bool, error), patterns ...string) {
		got, err := f(a, b)
		want := false
		for _, pat := range patterns {
			ok, err2 := RelateMatches(m, pat)
			vfAssert(err2 == nil, "pattern is well formed")
			want = want || ok
		}
		vfAssert(err == nil && got == want, name+" is what its DE-9IM patterns give on Relate(a,b)")
	}
	check("Equals", Equals, "T*F**FFF*")
	check("Disjoint", Disjoint, "FF*FF****")
	check("Touches", Touches, "FT*******", "F**T*****", "F***T****")
	check("Contains", Contains, "T*****FF*")
	check("Covers", Covers, "T*****FF*", "*T****FF*", "***T**FF*", "****T*FF*")
	check("Within", Within, "T*F**F***")
	check("CoveredBy", CoveredBy, "T*F**F***", "*TF**F***", "**FT*F***", "**F*TF***")
	// Crosses and Overlaps pick their pattern from the operands' dimensions
	da2, db2 := highestDimensionIgnoreEmpties(a), highestDimensionIgnoreEmpties(b)
	switch {
	case da2 < db2:
		check("Crosses", Crosses, "T*T******")
	case da2 > db2:
		check("Crosses", Crosses, "T*****T**")
	case da2 == 1:
		check("Crosses", Crosses, "0********")
	default:
		check("Crosses", Crosses)
	}
	switch {
	case da2 == db2 && da2 != 1:
		check("Overlaps", Overlaps, "T*T***T**")
	case da2 == 1 && db2 == 1:
		check("Overlaps", Overlaps, "1*T***T**")
	default:
		check("Overlaps", Overlaps) // mixed dimensions never overlap
	}
	dj, _ := Disjoint(a, b)
	vfAssert(dj == !Intersects(a, b), "Disjoint is the negation of Intersects")
	vfReach("end")
}
