//go:build verif

package geom

func init() {
	vfHarnesses["C03_shapes_rewrite"] = vfhC03ShapesRewrite
}

// invalid geometries (with the reason), to be rejected however they are written
var vfC03Invalid = []string{
	"POLYGON((0 0,4 0,4 4,0 4,0 0),(5 5,6 5,6 6,5 5))",                           // hole outside the shell
	"POLYGON((0 0,4 0,4 4,0 4,0 0),(0 1,2 2,0 3,0 1))",                           // hole shares a segment with the shell
	"POLYGON((0 0,8 0,8 8,0 8,0 0),(2 2,6 2,6 6,2 6,2 2),(3 3,5 3,4 5,3 3))",     // hole nested in a hole
	"POLYGON((0 0,8 0,8 8,0 8,0 0),(2 2,6 2,6 6,2 6,2 2),(2 2,4 3,3 4,2 2))",     // nested, touching at a vertex
	"POLYGON((0 0,8 0,8 8,0 8,0 0),(4 0,8 4,4 8,0 4,4 0))",                       // hole touches the shell four times: interior disconnected
	"POLYGON((0 0,4 4,4 0,0 4,0 0))",                                             // bow-tie
	"POLYGON((0 0,2 1,1 2,0 0,-2 1,-1 2,0 0))",                                   // pinched at the start vertex
	"POLYGON((0 0,4 0,4 4,2 4,2 0,0 0))",                                         // edge runs back along another (spike-like overlap)
	"POLYGON((0 0,8 0,8 8,0 8,0 0),(1 1,3 1,3 3,1 3,1 1),(2 2,5 2,5 5,2 5,2 2))", // holes overlap
	"MULTIPOLYGON(((0 0,4 0,4 4,0 4,0 0)),((2 2,6 2,6 6,2 6,2 2)))",              // members overlap
	"MULTIPOLYGON(((0 0,4 0,4 4,0 4,0 0)),((4 0,8 0,8 4,4 4,4 0)))",              // members share an edge
	"MULTIPOLYGON(((0 0,8 0,8 8,0 8,0 0)),((2 2,4 2,4 4,2 4,2 2)))",              // member inside another
	"LINESTRING(1 1,1 1)", // fewer than two distinct points
	// four holes (the R-tree of five rings has two levels), two of them crossing / nested / touching twice
	"POLYGON((0 0,20 0,20 20,0 20,0 0),(2 2,8 2,8 8,2 8,2 2),(12 12,18 12,18 18,12 18,12 12),(12 2,18 2,18 8,12 8,12 2),(6 6,14 6,14 14,6 14,6 6))",
	"POLYGON((0 0,20 0,20 20,0 20,0 0),(2 2,8 2,8 8,2 8,2 2),(12 12,18 12,18 18,12 18,12 12),(2 12,8 12,8 18,2 18,2 12),(13 13,17 13,15 17,13 13))",
	"POLYGON((0 0,20 0,20 20,0 20,0 0),(2 2,8 2,8 8,2 8,2 2),(12 12,18 12,18 18,12 18,12 12),(2 12,8 12,8 18,2 18,2 12),(8 2,12 4,8 8,10 5,8 2))",
}

// vfRewriteRings rewrites every closed curve of g from another start vertex
// (rot steps further) and optionally reversed; open curves are only reversed.
func vfRewriteRings(g Geometry, rot int, rev bool) Geometry {
	rw := func(ls LineString) LineString {
		seq := ls.Coordinates()
		n := seq.Length()
		var fs []float64
		if n >= 4 && ls.IsClosed() {
			m := n - 1
			for i := 0; i <= m; i++ {
				xy := seq.GetXY((i + rot) % m)
				fs = append(fs, xy.X, xy.Y)
			}
		} else {
			for i := 0; i < n; i++ {
				xy := seq.GetXY(i)
				fs = append(fs, xy.X, xy.Y)
			}
		}
		out := NewLineString(NewSequence(fs, DimXY))
		if rev {
			out = out.Reverse()
		}
		return out
	}
	switch g.Type() {
	case TypeLineString:
		return rw(g.MustAsLineString()).AsGeometry()
	case TypePolygon:
		var rings []LineString
		for _, r := range g.MustAsPolygon().DumpRings() {
			rings = append(rings, rw(r))
		}
		// the holes are listed starting rot positions further as well
		if nh := len(rings) - 1; nh > 1 {
			holes := append([]LineString{}, rings[1:]...)
			for i := range holes {
				rings[1+i] = holes[(i+rot)%nh]
			}
		}
		return NewPolygon(rings).AsGeometry()
	case TypeMultiLineString:
		m := g.MustAsMultiLineString()
		var ls []LineString
		for i := 0; i < m.NumLineStrings(); i++ {
			ls = append(ls, rw(m.LineStringN(i)))
		}
		return NewMultiLineString(ls).AsGeometry()
	case TypeMultiPolygon:
		m := g.MustAsMultiPolygon()
		var ps []Polygon
		for i := 0; i < m.NumPolygons(); i++ {
			ps = append(ps, vfRewriteRings(m.PolygonN(i).AsGeometry(), rot, rev).MustAsPolygon())
		}
		return NewMultiPolygon(ps).AsGeometry()
	case TypeGeometryCollection:
		c := g.MustAsGeometryCollection()
		var gs []Geometry
		for i := 0; i < c.NumGeometries(); i++ {
			gs = append(gs, vfRewriteRings(c.GeometryN(i), rot, rev))
		}
		return NewGeometryCollection(gs).AsGeometry()
	}
	return g
}

// Validity and the measures do not depend on how a geometry is written: every
// geometry of the shape tables (all valid) and every geometry of a table of
// invalid ones, rewritten from another start vertex (0..4 steps further) and /
// or reversed, gets the same verdict from Validate and from the validating WKT
// and WKB decoders; valid ones keep |Area|, Envelope, IsSimple (lines),
// ConvexHull and the DE-9IM matrix against the other operand of the pair.
func vfhC03ShapesRewrite() {
	all := append(append(append([][2]string{}, vfC01Shapes...), vfC02Shapes...), vfC09Extra...)
	rot := vfInt("rot", 0, 4)
	rev := vfBool("reverse")
	if vfBool("invalid") {
		k := vfInt("icase", 0, len(vfC03Invalid)-1)
		g, err := UnmarshalWKT(vfC03Invalid[k], NoValidate{})
		vfAssert(err == nil, "the text itself is well formed")
		w := vfRewriteRings(g, rot, rev)
		vfAssert(w.Validate() != nil, "an invalid geometry is rejected however it is written")
		_, err = UnmarshalWKT(w.AsText())
		vfAssert(err != nil, "the validating WKT decoder rejects it")
		_, err = UnmarshalWKB(w.AsBinary())
		vfAssert(err != nil, "the validating WKB decoder rejects it")
		vfReach("invalid")
		return
	}
	k := vfInt("case", 0, len(all)-1)
	side := 0
	if vfBool("second") {
		side = 1
	}
	g, err := UnmarshalWKT(all[k][side])
	vfAssert(err == nil, "operand parses (and is valid)")
	other, err := UnmarshalWKT(all[k][1-side])
	vfAssert(err == nil, "other operand parses")
	w := vfRewriteRings(g, rot, rev)
	vfAssert(w.Validate() == nil, "a valid geometry stays valid however it is written")
	vfAssert(w.Area() == g.Area(), "Area does not depend on the start vertex or direction")
	vfAssert(w.Envelope() == g.Envelope(), "Envelope does not depend on it")
	if g.IsLineString() {
		vfAssert(w.MustAsLineString().IsSimple() == g.MustAsLineString().IsSimple(), "IsSimple does not depend on it")
	}
	vfAssert(ExactEquals(w.ConvexHull(), g.ConvexHull(), IgnoreOrder), "ConvexHull does not depend on it")
	if !g.IsGeometryCollection() && !other.IsGeometryCollection() {
		m1, err1 := Relate(w, other)
		m0, err0 := Relate(g, other)
		vfAssert(err0 == nil && err1 == nil && m1 == m0, "the DE-9IM matrix does not depend on it")
	}
	vfAssert(Intersects(w, other) == Intersects(g, other), "Intersects does not depend on it")
	vfReach("valid")
	vfReach("end")
}

func init() {
	vfHarnesses["C03_hole_clusters"] = vfhC03HoleClusters
	vfHarnesses["C10_hole_clusters"] = vfhC03HoleClusters
}

// Several separate clusters of touching holes: one of them (three holes
// touching pairwise at three distinct points) cuts an island out of the
// interior, the others (two holes touching once) are harmless. The verdict
// must not depend on the order of the holes or on the order in which the
// ring-adjacency graph's maps are iterated (schedules after the mark).
func vfhC03HoleClusters() {
	shell := "(0 0,22 0,22 5,0 5,0 0)"
	cyc := []string{"(2 1,4 1,4 2,2 2,2 1)", "(2 2,3 3,2 4,1 3,2 2)", "(4 2,5 3,4 4,3 3,4 2)"}
	pairs := []string{"(10 1,12 1,11 2,10 1)", "(11 2,12 3,10 3,11 2)", "(16 1,18 1,17 2,16 1)", "(17 2,18 3,16 3,17 2)"}
	nCyc := vfInt("cycle-holes", 2, 3) // 2: no cycle, the polygon is valid
	var holes []string
	switch vfInt("order", 0, 2) {
	case 0:
		holes = append(append(holes, cyc[:nCyc]...), pairs...)
	case 1:
		holes = append(append(holes, pairs...), cyc[:nCyc]...)
	default:
		holes = append(holes, pairs[0], cyc[0], pairs[2], pairs[1])
		holes = append(holes, cyc[1:nCyc]...)
		holes = append(holes, pairs[3])
	}
	wkt := "POLYGON(" + shell
	for _, h := range holes {
		wkt += "," + h
	}
	wkt += ")"
	g, err := UnmarshalWKT(wkt, NoValidate{})
	vfAssert(err == nil, "the text is well formed")
	vfMapOrderMark()
	if nCyc == 3 {
		vfAssert(g.Validate() != nil, "holes that cut an island out of the interior make the polygon invalid, whatever the hole and map order")
		vfReach("disconnected")
	} else {
		vfAssert(g.Validate() == nil, "holes that only touch in chains keep the polygon valid")
		vfReach("connected")
	}
}
