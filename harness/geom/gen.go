//go:build verif

package geom

import "math"

// Generators shared by the harnesses. "F" = arbitrary float64 bit patterns,
// "L" = integer lattice.

// vfSeqF builds a Sequence of n points of coordinate type ct (ct concrete on
// the path) with every ordinate an arbitrary 64-bit pattern.
func vfSeqF(name string, n int, ct CoordinatesType) Sequence {
	dim := ct.Dimension()
	fs := make([]float64, 0, n*dim)
	for i := 0; i < n; i++ {
		for d := 0; d < dim; d++ {
			fs = append(fs, vfFloat64(name))
		}
	}
	return NewSequence(fs, ct)
}

// vfSeqL builds a Sequence on the lattice |c| <= 2^k; Z/M (if any) are
// arbitrary bit patterns.
func vfSeqL(name string, n int, ct CoordinatesType, k int) Sequence {
	dim := ct.Dimension()
	fs := make([]float64, 0, n*dim)
	for i := 0; i < n; i++ {
		fs = append(fs, vfLattice(name+".x", k), vfLattice(name+".y", k))
		for d := 2; d < dim; d++ {
			fs = append(fs, vfFloat64(name+".zm"))
		}
	}
	return NewSequence(fs, ct)
}

// vfSeqXYL builds an XY sequence from lattice points.
func vfSeqXYL(name string, n int, k int) Sequence {
	return vfSeqL(name, n, DimXY, k)
}

func vfFinite(f float64) bool {
	return !math.IsNaN(f) && !math.IsInf(f, 0)
}

// vfSameSeqBits: same length, coordinate type and bit-identical ordinates.
func vfSameSeqBits(a, b Sequence) bool {
	if a.Length() != b.Length() || a.CoordinatesType() != b.CoordinatesType() {
		return false
	}
	n := a.Length()
	ct := a.CoordinatesType()
	for i := 0; i < n; i++ {
		ca, cb := a.Get(i), b.Get(i)
		if !vfSameBits(ca.X, cb.X) || !vfSameBits(ca.Y, cb.Y) {
			return false
		}
		if ct.Is3D() && !vfSameBits(ca.Z, cb.Z) {
			return false
		}
		if ct.IsMeasured() && !vfSameBits(ca.M, cb.M) {
			return false
		}
	}
	return true
}

// vfEqF: the same float64 value (NaN equals NaN; +0 equals -0).
func vfEqF(a, b float64) bool {
	return a == b || (a != a && b != b)
}

func vfBitsOf(f float64) uint64 { return math.Float64bits(f) }
