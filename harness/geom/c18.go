//go:build verif

package geom

func init() {
	vfHarnesses["C18_closed_line_rotation"] = vfhC18ClosedLineRotation
	vfHarnesses["C18_point"] = vfhC18Point
	vfHarnesses["C18_linestring"] = vfhC18LineString
	vfHarnesses["C18_ignore_order_multipoint"] = vfhC18IgnoreOrderMultiPoint
	vfHarnesses["C18_ring_rotation"] = vfhC18RingRotation
	vfHarnesses["C18_empties"] = vfhC18Empties
	vfHarnesses["C18_tolerance_matching"] = vfhC18ToleranceMatching
	vfHarnesses["C18_point_hunt"] = vfhC18PointHunt
	vfHarnesses["C18_ring_vertex"] = vfhC18RingVertex
}

func vfFiniteCoords(name string, ct CoordinatesType) Coordinates {
	c := vfCoords(name, ct)
	vfAssume(vfAnd(vfFinite(c.X), vfFinite(c.Y)))
	if ct.Is3D() {
		vfAssume(vfFinite(c.Z))
	}
	if ct.IsMeasured() {
		vfAssume(vfFinite(c.M))
	}
	return c
}

// vfSameCoords: same coordinate type and ==-equal ordinates (so -0 equals +0),
// i.e. equal WKB up to the sign of zero.
func vfSameCoords(a, b Coordinates) bool {
	if a.Type != b.Type {
		return false
	}
	eq := vfAnd(a.X == b.X, a.Y == b.Y)
	if a.Type.Is3D() {
		eq = vfAnd(eq, a.Z == b.Z)
	}
	if a.Type.IsMeasured() {
		eq = vfAnd(eq, a.M == b.M)
	}
	return eq
}

// ExactEquals on two Points of arbitrary finite ordinates and coordinate types.
func vfhC18Point() {
	cta, ctb := vfCT("cta"), vfCT("ctb")
	a, b := vfFiniteCoords("a", cta), vfFiniteCoords("b", ctb)
	pa, pb := NewPoint(a).AsGeometry(), NewPoint(b).AsGeometry()
	want := vfSameCoords(a, b)
	vfAssert(ExactEquals(pa, pb) == want, "ExactEquals(point, point) is structural equality")
	vfAssert(ExactEquals(pb, pa) == want, "symmetric")
	vfAssert(ExactEquals(pa, pa), "reflexive")
	if want {
		vfReach("equal")
	} else {
		vfReach("different")
	}
	vfReach("end")
}

// ExactEquals on two LineStrings of 2 points.
func vfhC18LineString() {
	cta, ctb := vfCT("cta"), vfCT("ctb")
	a0, a1 := vfFiniteCoords("a0", cta), vfFiniteCoords("a1", cta)
	b0, b1 := vfFiniteCoords("b0", ctb), vfFiniteCoords("b1", ctb)
	mk := func(c0, c1 Coordinates) Geometry {
		var fs []float64
		for _, c := range []Coordinates{c0, c1} {
			fs = append(fs, c.X, c.Y)
			if c.Type.Is3D() {
				fs = append(fs, c.Z)
			}
			if c.Type.IsMeasured() {
				fs = append(fs, c.M)
			}
		}
		return NewLineString(NewSequence(fs, c0.Type)).AsGeometry()
	}
	la, lb := mk(a0, a1), mk(b0, b1)
	want := vfAnd(vfSameCoords(a0, b0), vfSameCoords(a1, b1))
	vfAssert(ExactEquals(la, lb) == want, "ExactEquals(line, line) is vertex-wise equality")
	rev := vfAnd(vfSameCoords(a0, b1), vfSameCoords(a1, b0))
	vfAssert(ExactEquals(la, lb, IgnoreOrder) == vfOr(want, rev), "IgnoreOrder additionally accepts the reversed line, nothing else")
	vfAssert(!ExactEquals(la, NewPoint(a0).AsGeometry()), "different types are never equal")
	vfReach("end")
}

// IgnoreOrder on MultiPoints of 2 points (XY, one possibly empty).
func vfhC18IgnoreOrderMultiPoint() {
	a0, a1 := vfFiniteCoords("a0", DimXY), vfFiniteCoords("a1", DimXY)
	b0, b1 := vfFiniteCoords("b0", DimXY), vfFiniteCoords("b1", DimXY)
	pa0, pa1, pb0, pb1 := NewPoint(a0), NewPoint(a1), NewPoint(b0), NewPoint(b1)
	ea1, eb1 := vfBool("a1-empty"), vfBool("b1-empty")
	if ea1 {
		pa1 = NewEmptyPoint(DimXY)
	}
	if eb1 {
		pb1 = NewEmptyPoint(DimXY)
	}
	ma := NewMultiPoint([]Point{pa0, pa1}).AsGeometry()
	mb := NewMultiPoint([]Point{pb0, pb1}).AsGeometry()
	eq := func(x Coordinates, xe bool, y Coordinates, ye bool) bool {
		if xe || ye {
			return xe && ye
		}
		return vfSameCoords(x, y)
	}
	inOrder := vfAnd(eq(a0, false, b0, false), eq(a1, ea1, b1, eb1))
	swapped := vfAnd(eq(a0, false, b1, eb1), eq(a1, ea1, b0, false))
	vfAssert(ExactEquals(ma, mb) == inOrder, "without options members are compared in order")
	vfAssert(ExactEquals(ma, mb, IgnoreOrder) == vfOr(inOrder, swapped), "IgnoreOrder accepts exactly the permutations")
	vfAssert(ExactEquals(mb, ma, IgnoreOrder) == vfOr(inOrder, swapped), "symmetric")
	vfReach("end")
}

// IgnoreOrder on rings: a triangle ring equals its rotations and its reversal.
func vfhC18RingRotation() {
	a, b, c := vfPt("a"), vfPt("b"), vfPt("c")
	vfAssume(vfCross(a, b, c) != 0)
	base := vfTriangle(a, b, c).AsGeometry()
	var other Geometry
	switch vfInt("variant", 0, 3) {
	case 0:
		other = vfTriangle(b, c, a).AsGeometry()
	case 1:
		other = vfTriangle(c, a, b).AsGeometry()
	case 2:
		other = vfTriangle(a, c, b).AsGeometry()
	default:
		other = vfTriangle(c, b, a).AsGeometry()
	}
	vfAssert(ExactEquals(base, other, IgnoreOrder), "a ring equals its rotations and reversal under IgnoreOrder")
	vfAssert(!ExactEquals(base, other), "but not without the option (the vertices are distinct)")
	vfReach("end")
}

// IgnoreOrder never ignores a differing vertex.
func vfhC18RingVertex() {
	a, b, c, d := vfPt("a"), vfPt("b"), vfPt("c"), vfPt("d")
	vfAssume(vfCross(a, b, c) != 0)
	vfAssume(vfCross(a, b, d) != 0)
	base := vfTriangle(a, b, c).AsGeometry()
	diff := vfTriangle(a, b, d).AsGeometry()
	vfAssert(ExactEquals(base, diff, IgnoreOrder) == vfEqXY(c, d), "a different vertex is never ignored")
	vfReach("end")
}

// Hunt (precise float64 multiplication): two XY points with finite ordinates
// that differ are never ExactEquals.
func vfhC18PointHunt() {
	a, b := vfFiniteCoords("a", DimXY), vfFiniteCoords("b", DimXY)
	pa, pb := NewPoint(a).AsGeometry(), NewPoint(b).AsGeometry()
	vfAssert(ExactEquals(pa, pb) == vfAnd(a.X == b.X, a.Y == b.Y), "ExactEquals(point, point) is equality of the ordinates")
	vfReach("end")
}

// Coordinate type and emptiness are part of the structure.
func vfhC18Empties() {
	cta, ctb := vfCT("cta"), vfCT("ctb")
	same := cta == ctb
	vfAssert(ExactEquals(NewEmptyPoint(cta).AsGeometry(), NewEmptyPoint(ctb).AsGeometry()) == same, "empty points")
	vfAssert(ExactEquals(LineString{}.ForceCoordinatesType(cta).AsGeometry(), LineString{}.ForceCoordinatesType(ctb).AsGeometry()) == same, "empty line strings")
	vfAssert(ExactEquals(Polygon{}.ForceCoordinatesType(cta).AsGeometry(), Polygon{}.ForceCoordinatesType(ctb).AsGeometry()) == same, "empty polygons")
	vfAssert(ExactEquals(MultiPoint{}.ForceCoordinatesType(cta).AsGeometry(), MultiPoint{}.ForceCoordinatesType(ctb).AsGeometry()) == same, "empty multipoints")
	vfAssert(ExactEquals(MultiLineString{}.ForceCoordinatesType(cta).AsGeometry(), MultiLineString{}.ForceCoordinatesType(ctb).AsGeometry()) == same, "empty multilinestrings")
	vfAssert(ExactEquals(MultiPolygon{}.ForceCoordinatesType(cta).AsGeometry(), MultiPolygon{}.ForceCoordinatesType(ctb).AsGeometry()) == same, "empty multipolygons")
	vfAssert(ExactEquals(GeometryCollection{}.ForceCoordinatesType(cta).AsGeometry(), GeometryCollection{}.ForceCoordinatesType(ctb).AsGeometry()) == same, "empty collections")
	vfAssert(!ExactEquals(NewEmptyPoint(cta).AsGeometry(), MultiPoint{}.ForceCoordinatesType(cta).AsGeometry()), "different types")
	vfAssert(ExactEquals(Geometry{}, GeometryCollection{}.AsGeometry()), "the zero Geometry is the empty collection")
	vfReach("end")
}

// IgnoreOrder + ToleranceXY on MultiPoints of 3 points on a horizontal line:
// equal iff some permutation pairs the members within the tolerance (checked
// against all 6 permutations); symmetric.
func vfhC18ToleranceMatching() {
	var ax, bx [3]float64
	for i := range ax {
		ax[i] = vfLattice("a", 6)
		bx[i] = vfLattice("b", 6)
	}
	tol := vfLattice("tol", 4)
	vfAssume(tol > 0)
	mk := func(xs [3]float64) Geometry {
		return NewMultiPoint([]Point{vfPointXY(XY{xs[0], 0}), vfPointXY(XY{xs[1], 0}), vfPointXY(XY{xs[2], 0})}).AsGeometry()
	}
	near := func(i, j int) bool {
		d := ax[i] - bx[j]
		return d*d <= tol*tol
	}
	perms := [][3]int{{0, 1, 2}, {0, 2, 1}, {1, 0, 2}, {1, 2, 0}, {2, 0, 1}, {2, 1, 0}}
	want := false
	for _, p := range perms {
		want = vfOr(want, vfAnd(near(0, p[0]), vfAnd(near(1, p[1]), near(2, p[2]))))
	}
	a, b := mk(ax), mk(bx)
	got := ExactEquals(a, b, IgnoreOrder, ToleranceXY(tol))
	vfAssert(got == want, "equal iff some permutation matches the members within the tolerance")
	vfAssert(ExactEquals(b, a, IgnoreOrder, ToleranceXY(tol)) == got, "symmetric")
	vfAssert(ExactEquals(a, b, ToleranceXY(tol), IgnoreOrder) == got, "the order of the two options does not matter")
	inOrder := vfAnd(near(0, 0), vfAnd(near(1, 1), near(2, 2)))
	vfAssert(ExactEquals(a, b, ToleranceXY(tol)) == inOrder, "without IgnoreOrder the members correspond in order")
	if got {
		vfReach("equal")
	} else {
		vfReach("different")
	}
	vfReach("end")
}

// IgnoreOrder identifies the start vertex of a RING only: a closed LineString
// that crosses or touches itself is not a ring, so writing it from another
// vertex gives a different geometry, while reversing it (the direction of a
// LineString) does not; for a simple closed LineString both are identified.
// Also inside a MultiLineString and a GeometryCollection.
func vfhC18ClosedLineRotation() {
	var wkt string
	ring := false
	switch vfInt("curve", 0, 5) {
	case 4:
		wkt, ring = "LINESTRING(0 0,1 0,1 1,0 0,0 0)", true // a ring with a repeated vertex: several rotations line up its start
	case 5:
		wkt, ring = "LINESTRING(0 0,0 0,4 0,4 4,4 4,0 4,0 0)", true
	case 0:
		wkt, ring = "LINESTRING(0 0,1 1,1 0,0 1,0 0)", false // bow-tie
	case 1:
		wkt, ring = "LINESTRING(0 0,4 0,4 4,2 0,2 4,0 4,0 0)", false // touches itself at (2 0)
	case 2:
		wkt, ring = "LINESTRING(0 0,4 0,4 4,0 4,0 0)", true
	default:
		wkt, ring = "LINESTRING(0 0,4 0,5 3,2 5,-1 3,0 0)", true
	}
	base, err := UnmarshalWKT(wkt)
	vfAssert(err == nil, "curve parses")
	rot := vfInt("rot", 0, 5)
	rev := vfBool("reverse")
	other := vfRewriteRings(base, rot, rev)
	sameSeq := rot%(base.MustAsLineString().Coordinates().Length()-1) == 0
	want := ring || sameSeq
	wrap := vfInt("wrap", 0, 2)
	a, b := base, other
	switch wrap {
	case 1:
		a = NewMultiLineString([]LineString{base.MustAsLineString()}).AsGeometry()
		b = NewMultiLineString([]LineString{other.MustAsLineString()}).AsGeometry()
	case 2:
		a = NewGeometryCollection([]Geometry{base, NewPointXY(9, 9).AsGeometry()}).AsGeometry()
		b = NewGeometryCollection([]Geometry{NewPointXY(9, 9).AsGeometry(), other}).AsGeometry()
	}
	vfAssert(base.MustAsLineString().IsRing() == ring, "the curve is a ring iff it is simple")
	vfAssert(ExactEquals(a, b, IgnoreOrder) == want, "IgnoreOrder identifies another start vertex only for rings (the direction always)")
	vfAssert(ExactEquals(b, a, IgnoreOrder) == want, "symmetric")
	vfAssert(ExactEquals(a, b) == (sameSeq && !rev && wrap != 2), "without the option only the identical spelling is equal")
	vfReach("end")
}
