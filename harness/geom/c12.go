//go:build verif

package geom

func init() {
	vfHarnesses["C12_classify_hunt"] = vfhC12ClassifyHunt
	vfHarnesses["C12_relations_hunt"] = vfhC12RelationsHunt
	vfHarnesses["C12_envelope_algebra"] = vfhC12EnvelopeAlgebra
	vfHarnesses["C12_geometry_envelopes"] = vfhC12GeometryEnvelopes
	vfHarnesses["C12_envelope_distance"] = vfhC12EnvelopeDistance
}

// vfEnv: the envelope of two lattice points, or the empty envelope.
func vfEnv(name string) (e Envelope, empty bool, lo, hi XY) {
	if vfBool(name + ".empty") {
		return Envelope{}, true, XY{}, XY{}
	}
	p, q := vfPt(name+".p"), vfPt(name+".q")
	lo = XY{vfMin(p.X, q.X), vfMin(p.Y, q.Y)}
	hi = XY{vfMax(p.X, q.X), vfMax(p.Y, q.Y)}
	return NewEnvelope(p, q), false, lo, hi
}

// Envelope methods against their closed-interval definitions.
func vfhC12EnvelopeAlgebra() {
	e, eEmpty, elo, ehi := vfEnv("e")
	o, oEmpty, olo, ohi := vfEnv("o")
	q := vfPt("q")

	vfAssert(e.IsEmpty() == eEmpty, "IsEmpty")
	mn, mx, ok := e.MinMaxXYs()
	vfAssert(ok == !eEmpty, "MinMaxXYs flag")
	if !eEmpty {
		vfAssert(vfAnd(vfEqXY(mn, elo), vfEqXY(mx, ehi)), "min/max are the interval ends")
		w, h := ehi.X-elo.X, ehi.Y-elo.Y
		vfAssert(e.Width() == w && e.Height() == h, "Width/Height")
		vfAssert(e.Area() == w*h, "Area")
		isPt := vfAnd(w == 0, h == 0)
		isLn := vfAnd(!isPt, vfOr(w == 0, h == 0))
		isRect := vfAnd(w != 0, h != 0)
		vfAssert(e.IsPoint() == isPt, "IsPoint")
		vfAssert(e.IsLine() == isLn, "IsLine")
		vfAssert(e.IsRectangle() == isRect, "IsRectangle")
		g := e.AsGeometry()
		vfAssert(g.IsPoint() == isPt && g.IsLineString() == isLn && g.IsPolygon() == isRect, "AsGeometry type follows the degeneracy")
		vfAssert(g.Envelope() == e, "AsGeometry has the same envelope")
		d := e.BoundingDiagonal()
		vfAssert(d.IsPoint() == isPt && d.IsLineString() == !isPt, "BoundingDiagonal type")
		vfAssert(d.Envelope() == e, "BoundingDiagonal has the same envelope")
		c, cok := e.Center().XY()
		vfAssert(cok, "Center non-empty")
		vfAssert(c.X*2 == elo.X+ehi.X && c.Y*2 == elo.Y+ehi.Y, "Center is the midpoint")
		box, bok := e.AsBox()
		vfAssert(bok && box.MinX == elo.X && box.MinY == elo.Y && box.MaxX == ehi.X && box.MaxY == ehi.Y, "AsBox")
		vfReach("e-nonempty")
	} else {
		vfAssert(e.Width() == 0 && e.Height() == 0 && e.Area() == 0, "empty envelope has zero measures")
		vfAssert(!e.IsPoint() && !e.IsLine() && !e.IsRectangle(), "empty envelope is none of point/line/rectangle")
		vfAssert(e.AsGeometry().IsEmpty() && e.BoundingDiagonal().IsEmpty() && e.Center().IsEmpty(), "empty envelope gives empty geometries")
		_, bok := e.AsBox()
		vfAssert(!bok, "AsBox flag")
		vfReach("e-empty")
	}

	inE := vfAnd(vfAnd(elo.X <= q.X, q.X <= ehi.X), vfAnd(elo.Y <= q.Y, q.Y <= ehi.Y))
	vfAssert(e.Contains(q) == vfAnd(!eEmpty, inE), "Contains")

	meet := vfAnd(vfAnd(elo.X <= ohi.X, olo.X <= ehi.X), vfAnd(elo.Y <= ohi.Y, olo.Y <= ehi.Y))
	both := vfAnd(!eEmpty, !oEmpty)
	vfAssert(e.Intersects(o) == vfAnd(both, meet), "Intersects")
	vfAssert(e.Intersects(o) == o.Intersects(e), "Intersects symmetric")
	cov := vfAnd(vfAnd(elo.X <= olo.X, ohi.X <= ehi.X), vfAnd(elo.Y <= olo.Y, ohi.Y <= ehi.Y))
	vfAssert(e.Covers(o) == vfAnd(both, cov), "Covers")

	j := e.ExpandToIncludeEnvelope(o)
	switch {
	case eEmpty:
		vfAssert(j == o, "empty is the identity of the join (left)")
	case oEmpty:
		vfAssert(j == e, "empty is the identity of the join (right)")
	default:
		jmn, jmx, _ := j.MinMaxXYs()
		vfAssert(jmn.X == vfMin(elo.X, olo.X) && jmn.Y == vfMin(elo.Y, olo.Y) &&
			jmx.X == vfMax(ehi.X, ohi.X) && jmx.Y == vfMax(ehi.Y, ohi.Y), "join is the interval hull")
		vfAssert(j == o.ExpandToIncludeEnvelope(e), "join commutes")
		vfAssert(j.Covers(e) && j.Covers(o), "join covers both")
	}
	x := e.ExpandToIncludeXY(q)
	vfAssert(x.Contains(q), "ExpandToIncludeXY contains the point")
	vfAssert(eEmpty || x.Covers(e), "ExpandToIncludeXY covers the original")

	vfReach("end")
}

// Envelope.Distance: defined iff both non-empty, zero iff intersecting,
// non-negative, symmetric.
func vfhC12EnvelopeDistance() {
	e, eEmpty, elo, ehi := vfEnv("e")
	o, oEmpty, olo, ohi := vfEnv("o")
	meet := vfAnd(vfAnd(elo.X <= ohi.X, olo.X <= ehi.X), vfAnd(elo.Y <= ohi.Y, olo.Y <= ehi.Y))
	both := vfAnd(!eEmpty, !oEmpty)
	d, dok := e.Distance(o)
	vfAssert(dok == both, "Distance defined iff both non-empty")
	if both {
		vfAssert((d == 0) == meet, "Distance zero iff intersecting")
		vfAssert(d >= 0, "Distance non-negative")
		d2, _ := o.Distance(e)
		vfAssert(d == d2, "Distance symmetric")
		vfReach("both")
	}
	vfReach("end")
}

// Envelope() of geometries is the min/max over the control points.
func vfhC12GeometryEnvelopes() {
	a, b, c := vfPt("a"), vfPt("b"), vfPt("c")
	lo := XY{vfMin(a.X, vfMin(b.X, c.X)), vfMin(a.Y, vfMin(b.Y, c.Y))}
	hi := XY{vfMax(a.X, vfMax(b.X, c.X)), vfMax(a.Y, vfMax(b.Y, c.Y))}
	want := newUncheckedEnvelope(lo, hi)
	ct := vfCT("ct")

	ls := vfLineXY(a, b, c).ForceCoordinatesType(ct)
	vfAssert(ls.Envelope() == want, "LineString envelope")
	vfAssert(ls.Reverse().Envelope() == want, "unchanged by Reverse")
	vfAssert(ls.Force2D().Envelope() == want, "unchanged by Force2D")
	mp := NewMultiPoint([]Point{vfPointXY(a), NewEmptyPoint(DimXY), vfPointXY(b), vfPointXY(c)}).ForceCoordinatesType(ct)
	vfAssert(mp.Envelope() == want, "MultiPoint envelope ignores empty members")
	tri := vfTriangle(a, b, c)
	vfAssert(tri.Envelope() == want, "Polygon envelope")
	vfAssert(tri.ForceCW().Envelope() == want && tri.ForceCCW().Envelope() == want, "unchanged by orientation forcing")
	ab := vfLineXY(a, b)
	gc := NewGeometryCollection([]Geometry{ab.AsGeometry(), vfPointXY(c).AsGeometry(), Geometry{}})
	vfAssert(gc.Envelope() == ab.Envelope().ExpandToIncludeEnvelope(vfPointXY(c).Envelope()), "collection envelope is the join of the members")
	vfAssert(gc.Envelope() == want, "collection envelope")
	gc2 := NewGeometryCollection([]Geometry{vfPointXY(c).AsGeometry(), ab.AsGeometry()})
	vfAssert(gc2.Envelope() == want, "independent of member order")
	mls := NewMultiLineString([]LineString{ab, vfLineXY(b, c), LineString{}})
	vfAssert(mls.Envelope() == want, "MultiLineString envelope")
	vfAssert(NewEmptyPoint(ct).Envelope().IsEmpty() && LineString{}.Envelope().IsEmpty() && Polygon{}.Envelope().IsEmpty() &&
		MultiPoint{}.Envelope().IsEmpty() && GeometryCollection{}.Envelope().IsEmpty() && Geometry{}.Envelope().IsEmpty(), "empty geometries have empty envelopes")
	vfAssert(!vfPointXY(a).Envelope().IsEmpty(), "non-empty geometry has a non-empty envelope")
	vfReach("end")
}

// Envelope classification for ALL finite float64 corner values (FP theory,
// precise multiplication in hunt mode): exactly one of IsEmpty / IsPoint /
// IsLine / IsRectangle holds and it is the one the closed-interval definition
// gives (comparisons of the corner ordinates), AsGeometry has the matching
// type, Covers/Contains of the corners hold.
func vfhC12ClassifyHunt() {
	a := XY{vfFloat64("a.x"), vfFloat64("a.y")}
	b := XY{vfFloat64("b.x"), vfFloat64("b.y")}
	vfAssume(vfAnd(vfAnd(vfFinite(a.X), vfFinite(a.Y)), vfAnd(vfFinite(b.X), vfFinite(b.Y))))
	e := NewEnvelope(a, b)
	mn, mx, ok := e.MinMaxXYs()
	vfAssert(ok && !e.IsEmpty(), "not empty")
	dx, dy := mn.X != mx.X, mn.Y != mx.Y
	isPt := vfAnd(!dx, !dy)
	isRect := vfAnd(dx, dy)
	isLn := vfAnd(!isPt, !isRect)
	vfAssert(e.IsPoint() == isPt, "IsPoint iff both intervals are degenerate")
	vfAssert(e.IsLine() == isLn, "IsLine iff exactly one interval is degenerate")
	vfAssert(e.IsRectangle() == isRect, "IsRectangle iff neither interval is degenerate")
	g := e.AsGeometry()
	vfAssert(g.IsPoint() == isPt && g.IsLineString() == isLn && g.IsPolygon() == isRect, "AsGeometry type follows the classification")
	vfAssert(e.Contains(a) && e.Contains(b), "the corners are contained")
	vfAssert(vfAnd(mn.X <= mx.X, mn.Y <= mx.Y), "min <= max")
	// Center is the midpoint of the two intervals, correctly rounded, for ordinates
	// whose sum cannot overflow (|v| <= 1e300)
	small := func(v float64) bool { return vfAnd(v >= -1e300, v <= 1e300) }
	if vfAnd(vfAnd(small(a.X), small(a.Y)), vfAnd(small(b.X), small(b.Y))) {
		c, ok := e.Center().XY()
		vfAssert(ok, "Center of a non-empty envelope")
		vfAssert(vfAnd(c.X == (mn.X+mx.X)*0.5, c.Y == (mn.Y+mx.Y)*0.5), "Center is (min+max)/2, correctly rounded")
		vfAssert(vfAnd(vfAnd(mn.X <= c.X, c.X <= mx.X), vfAnd(mn.Y <= c.Y, c.Y <= mx.Y)), "Center lies inside the envelope")
	}
	vfReach("end")
}

// Envelope order relations for ALL finite float64 corner values (FP theory):
// Contains, Intersects, Covers and ExpandToIncludeEnvelope against the
// closed-interval definition.
func vfhC12RelationsHunt() {
	a := XY{vfFloat64("a.x"), vfFloat64("a.y")}
	b := XY{vfFloat64("b.x"), vfFloat64("b.y")}
	vfAssume(vfAnd(vfAnd(vfFinite(a.X), vfFinite(a.Y)), vfAnd(vfFinite(b.X), vfFinite(b.Y))))
	e := NewEnvelope(a, b)
	mn, mx, _ := e.MinMaxXYs()
	c := XY{vfFloat64("c.x"), vfFloat64("c.y")}
	d := XY{vfFloat64("d.x"), vfFloat64("d.y")}
	q := XY{vfFloat64("q.x"), vfFloat64("q.y")}
	vfAssume(vfAnd(vfAnd(vfFinite(c.X), vfFinite(c.Y)), vfAnd(vfFinite(d.X), vfFinite(d.Y))))
	vfAssume(vfAnd(vfFinite(q.X), vfFinite(q.Y)))
	o := NewEnvelope(c, d)
	omn, omx, _ := o.MinMaxXYs()
	inE := vfAnd(vfAnd(mn.X <= q.X, q.X <= mx.X), vfAnd(mn.Y <= q.Y, q.Y <= mx.Y))
	vfAssert(e.Contains(q) == inE, "Contains(q) iff q is in both closed intervals")
	meet := vfAnd(vfAnd(mn.X <= omx.X, omn.X <= mx.X), vfAnd(mn.Y <= omx.Y, omn.Y <= mx.Y))
	vfAssert(e.Intersects(o) == meet && o.Intersects(e) == meet, "Intersects iff the intervals overlap on both axes")
	cov := vfAnd(vfAnd(mn.X <= omn.X, omx.X <= mx.X), vfAnd(mn.Y <= omn.Y, omx.Y <= mx.Y))
	vfAssert(e.Covers(o) == cov, "Covers iff o's intervals are inside e's")
	u := e.ExpandToIncludeEnvelope(o)
	vfAssert(u.Covers(e) && u.Covers(o), "the expanded envelope covers both")
	umn, umx, _ := u.MinMaxXYs()
	vfAssert(vfAnd(vfOr(umn.X == mn.X, umn.X == omn.X), vfOr(umx.Y == mx.Y, umx.Y == omx.Y)), "and its ends are ends of the operands")
	vfReach("end")
}

func init() {
	vfHarnesses["C12_envelope_distance_values"] = vfhC12EnvelopeDistanceValues
}

// The value of Envelope.Distance on envelopes whose gaps form Pythagorean
// triples (so the exact answer is a small integer), in all four diagonal
// directions, for boxes, segments and points, in both argument orders; and
// the value when only one axis separates them.
func vfhC12EnvelopeDistanceValues() {
	gaps := [][3]float64{{3, 4, 5}, {4, 3, 5}, {5, 12, 13}, {12, 5, 13}, {8, 15, 17}, {20, 21, 29}, {0, 7, 7}, {7, 0, 7}, {6, 6, 0}}
	k := vfInt("gaps", 0, len(gaps)-1)
	gx, gy, want := gaps[k][0], gaps[k][1], gaps[k][2]
	if k == len(gaps)-1 {
		want = 72 // checked squared: sqrt(72) is not an integer
	}
	sizes := []float64{0, 1, 2} // 0: degenerate
	w, h := sizes[vfInt("width", 0, 2)], sizes[vfInt("height", 0, 2)]
	e := newUncheckedEnvelope(XY{10, 20}, XY{10 + w, 20 + h})
	var olo, ohi XY
	left, below := vfBool("left"), vfBool("below")
	if left {
		ohi.X = 10 - gx
		olo.X = ohi.X - 3
	} else {
		olo.X = 10 + w + gx
		ohi.X = olo.X + 3
	}
	if below {
		ohi.Y = 20 - gy
		olo.Y = ohi.Y - 1
	} else {
		olo.Y = 20 + h + gy
		ohi.Y = olo.Y + 1
	}
	if vfBool("point") {
		if left {
			olo.X = ohi.X
		} else {
			ohi.X = olo.X
		}
		if below {
			olo.Y = ohi.Y
		} else {
			ohi.Y = olo.Y
		}
	}
	o := newUncheckedEnvelope(olo, ohi)
	d, ok := e.Distance(o)
	d2, ok2 := o.Distance(e)
	vfAssert(ok && ok2 && d == d2, "defined and symmetric")
	if k == len(gaps)-1 {
		vfAssert(d*d > want*(1-1e-12) && d*d < want*(1+1e-12), "equal gaps: the diagonal of the gap square")
	} else {
		vfAssert(d == want, "Distance is the Euclidean distance between the nearest corners / sides")
	}
	vfReach("end")
}
