//go:build verif

package geom

func init() {
	vfHarnesses["C06_marshal"] = vfhC06Marshal
}

// vfJSONPos: the RFC 7946 position of c: 2 elements, or 3 when 3D; M never.
func vfJSONPos(c Coordinates) string {
	s := "[" + string(appendFloat(nil, c.X)) + "," + string(appendFloat(nil, c.Y))
	if c.Type.Is3D() {
		s += "," + string(appendFloat(nil, c.Z))
	}
	return s + "]"
}

func vfJSONSeq(seq Sequence) string {
	s := "["
	for i := 0; i < seq.Length(); i++ {
		if i > 0 {
			s += ","
		}
		s += vfJSONPos(seq.Get(i))
	}
	return s + "]"
}

// vfJSONBalanced: a minimal syntax check: brackets/braces balanced and
// properly nested, strings closed.
func vfJSONBalanced(b []byte) bool {
	var stack []byte
	inStr := false
	for _, c := range b {
		switch {
		case inStr:
			if c == '"' {
				inStr = false
			}
		case c == '"':
			inStr = true
		case c == '[' || c == '{':
			stack = append(stack, c)
		case c == ']' || c == '}':
			if len(stack) == 0 {
				return false
			}
			open := stack[len(stack)-1]
			stack = stack[:len(stack)-1]
			if (c == ']') != (open == '[') {
				return false
			}
		}
	}
	return !inStr && len(stack) == 0
}

// MarshalJSON of the six non-collection types against an independent RFC 7946
// printer (member names, nesting depth, 2/3-element positions, M dropped,
// empty Points omitted from MultiPoints); ordinates as opaque numeral tokens.
func vfhC06Marshal() {
	ct := vfCT("ct")
	var got []byte
	var err error
	var want string
	switch vfInt("shape", 0, 7) {
	case 0:
		c := vfFiniteCoords("p", ct)
		got, err = NewPoint(c).MarshalJSON()
		want = `{"type":"Point","coordinates":` + vfJSONPos(c) + `}`
	case 1:
		got, err = NewEmptyPoint(ct).MarshalJSON()
		want = `{"type":"Point","coordinates":[]}`
	case 2:
		seq := vfFiniteSeq("l", 2, ct)
		got, err = NewLineString(seq).MarshalJSON()
		want = `{"type":"LineString","coordinates":` + vfJSONSeq(seq) + `}`
	case 3:
		r0, r1 := vfFiniteSeq("r0", 4, ct), vfFiniteSeq("r1", 4, ct)
		got, err = NewPolygon([]LineString{NewLineString(r0), NewLineString(r1)}).MarshalJSON()
		want = `{"type":"Polygon","coordinates":[` + vfJSONSeq(r0) + `,` + vfJSONSeq(r1) + `]}`
	case 4:
		a, b := vfFiniteCoords("a", ct), vfFiniteCoords("b", ct)
		pts := []Point{NewPoint(a), NewEmptyPoint(ct), NewPoint(b)}
		if vfBool("empty-first") {
			pts[0], pts[1] = pts[1], pts[0]
		}
		got, err = NewMultiPoint(pts).MarshalJSON()
		want = `{"type":"MultiPoint","coordinates":[` + vfJSONPos(a) + `,` + vfJSONPos(b) + `]}`
	case 5:
		s0, s1 := vfFiniteSeq("s0", 2, ct), vfFiniteSeq("s1", 2, ct)
		got, err = NewMultiLineString([]LineString{NewLineString(s0), NewLineString(s1)}).MarshalJSON()
		want = `{"type":"MultiLineString","coordinates":[` + vfJSONSeq(s0) + `,` + vfJSONSeq(s1) + `]}`
	case 6:
		r := vfFiniteSeq("r", 4, ct)
		poly := NewPolygon([]LineString{NewLineString(r)})
		got, err = NewMultiPolygon([]Polygon{poly, poly}).MarshalJSON()
		want = `{"type":"MultiPolygon","coordinates":[[` + vfJSONSeq(r) + `],[` + vfJSONSeq(r) + `]]}`
	default:
		got, err = LineString{}.ForceCoordinatesType(ct).MarshalJSON()
		want = `{"type":"LineString","coordinates":[]}`
	}
	vfAssert(err == nil, "marshal succeeds")
	vfAssert(string(got) == want, "output equals the RFC 7946 rendering")
	vfAssert(vfJSONBalanced(got), "brackets, braces and strings are balanced")
	vfReach("end")
}
