//go:build verif

package geom

func init() {
	vfHarnesses["C06_decode_nested"] = vfhC06DecodeNested
	vfHarnesses["C08_geojson_nested"] = vfhC06DecodeNested
	vfHarnesses["C06_marshal"] = vfhC06Marshal
	vfHarnesses["C06_roundtrip"] = vfhC06RoundTrip
	vfHarnesses["C06_roundtrip_collection"] = vfhC06RoundTripCollection
	vfHarnesses["C06_decode_positions"] = vfhC06DecodePositions
}

// vfJSONPos: the RFC 7946 position of c: 2 elements, or 3 when 3D; M never.
func vfJSONPos(c Coordinates) string {
	s := "[" + string(appendFloat(nil, c.X)) + "," + string(appendFloat(nil, c.Y))
	if c.Type.Is3D() {
		s += "," + string(appendFloat(nil, c.Z))
	}
	return s + "]"
}

func vfJSONSeq(seq Sequence) string {
	s := "["
	for i := 0; i < seq.Length(); i++ {
		if i > 0 {
			s += ","
		}
		s += vfJSONPos(seq.Get(i))
	}
	return s + "]"
}

// vfJSONBalanced: a minimal syntax check: brackets/braces balanced and
// properly nested, strings closed.
func vfJSONBalanced(b []byte) bool {
	var stack []byte
	inStr := false
	for _, c := range b {
		switch {
		case inStr:
			if c == '"' {
				inStr = false
			}
		case c == '"':
			inStr = true
		case c == '[' || c == '{':
			stack = append(stack, c)
		case c == ']' || c == '}':
			if len(stack) == 0 {
				return false
			}
			open := stack[len(stack)-1]
			stack = stack[:len(stack)-1]
			if (c == ']') != (open == '[') {
				return false
			}
		}
	}
	return !inStr && len(stack) == 0
}

// MarshalJSON of the six non-collection types against an independent RFC 7946
// printer (member names, nesting depth, 2/3-element positions, M dropped,
// empty Points omitted from MultiPoints); ordinates as opaque numeral tokens.
func vfhC06Marshal() {
	ct := vfCT("ct")
	var got []byte
	var err error
	var want string
	switch vfInt("shape", 0, 7) {
	case 0:
		c := vfFiniteCoords("p", ct)
		got, err = NewPoint(c).MarshalJSON()
		want = `{"type":"Point","coordinates":` + vfJSONPos(c) + `}`
	case 1:
		got, err = NewEmptyPoint(ct).MarshalJSON()
		want = `{"type":"Point","coordinates":[]}`
	case 2:
		seq := vfFiniteSeq("l", 2, ct)
		got, err = NewLineString(seq).MarshalJSON()
		want = `{"type":"LineString","coordinates":` + vfJSONSeq(seq) + `}`
	case 3:
		r0, r1 := vfFiniteSeq("r0", 4, ct), vfFiniteSeq("r1", 4, ct)
		got, err = NewPolygon([]LineString{NewLineString(r0), NewLineString(r1)}).MarshalJSON()
		want = `{"type":"Polygon","coordinates":[` + vfJSONSeq(r0) + `,` + vfJSONSeq(r1) + `]}`
	case 4:
		a, b := vfFiniteCoords("a", ct), vfFiniteCoords("b", ct)
		pts := []Point{NewPoint(a), NewEmptyPoint(ct), NewPoint(b)}
		if vfBool("empty-first") {
			pts[0], pts[1] = pts[1], pts[0]
		}
		got, err = NewMultiPoint(pts).MarshalJSON()
		want = `{"type":"MultiPoint","coordinates":[` + vfJSONPos(a) + `,` + vfJSONPos(b) + `]}`
	case 5:
		s0, s1 := vfFiniteSeq("s0", 2, ct), vfFiniteSeq("s1", 2, ct)
		got, err = NewMultiLineString([]LineString{NewLineString(s0), NewLineString(s1)}).MarshalJSON()
		want = `{"type":"MultiLineString","coordinates":[` + vfJSONSeq(s0) + `,` + vfJSONSeq(s1) + `]}`
	case 6:
		r := vfFiniteSeq("r", 4, ct)
		poly := NewPolygon([]LineString{NewLineString(r)})
		got, err = NewMultiPolygon([]Polygon{poly, poly}).MarshalJSON()
		want = `{"type":"MultiPolygon","coordinates":[[` + vfJSONSeq(r) + `],[` + vfJSONSeq(r) + `]]}`
	default:
		got, err = LineString{}.ForceCoordinatesType(ct).MarshalJSON()
		want = `{"type":"LineString","coordinates":[]}`
	}
	vfAssert(err == nil, "marshal succeeds")
	vfAssert(string(got) == want, "output equals the RFC 7946 rendering")
	vfAssert(vfJSONBalanced(got), "brackets, braces and strings are balanced")
	vfReach("end")
}

// vfGeoJSONExpected: what RFC 7946 can carry of g: M dropped everywhere (the
// result is XY or XYZ).
func vfDropM(g Geometry) Geometry {
	if g.CoordinatesType().Is3D() {
		return g.ForceCoordinatesType(DimXYZ)
	}
	return g.ForceCoordinatesType(DimXY)
}

// MarshalJSON then UnmarshalGeoJSON returns the original with only the losses
// the format forces (M dropped; XY and Z bit-identical), through the real
// second pass of the decoder (json.Unmarshal itself is a model: DESIGN 6).
func vfhC06RoundTrip() {
	ct := vfCT("ct")
	var g Geometry
	switch vfInt("shape", 0, 5) {
	case 0:
		g = NewPoint(vfFiniteCoords("p", ct)).AsGeometry()
	case 1:
		g = NewLineString(vfFiniteSeq("l", 2, ct)).AsGeometry()
	case 2:
		g = NewPolygon([]LineString{NewLineString(vfFiniteSeq("r0", 4, ct)), NewLineString(vfFiniteSeq("r1", 4, ct))}).AsGeometry()
	case 3:
		g = NewMultiPoint([]Point{NewPoint(vfFiniteCoords("a", ct)), NewPoint(vfFiniteCoords("b", ct))}).AsGeometry()
	case 4:
		g = NewMultiLineString([]LineString{NewLineString(vfFiniteSeq("s0", 2, ct)), NewLineString(vfFiniteSeq("s1", 2, ct))}).AsGeometry()
	default:
		// a collection with an empty Point member next to a member with positions
		inner := NewGeometryCollection([]Geometry{NewEmptyPoint(ct).AsGeometry(), NewLineString(vfFiniteSeq("l", 2, ct)).AsGeometry()})
		g = NewGeometryCollection([]Geometry{NewPoint(vfFiniteCoords("p", ct)).AsGeometry(), inner.AsGeometry()}).AsGeometry()
	}
	js, err := g.MarshalJSON()
	vfAssert(err == nil, "marshal succeeds")
	h, err := UnmarshalGeoJSON(js, NoValidate{})
	vfAssert(err == nil, "the output decodes")
	want := vfDropM(g)
	vfAssert(h.Type() == want.Type(), "same type")
	vfAssert(h.CoordinatesType() == want.CoordinatesType(), "Z kept, M dropped")
	vfAssert(vfGeomBits(h, want), "XY and Z ordinates bit-identical, same structure")
	vfReach("end")
}

// The decoder on documents built from a grammar: a LineString whose two
// positions have symbolic lengths 0..5, and a Point of length 0..5.
func vfhC06DecodePositions() {
	nums := []string{"1", "2", "3", "4", "5"}
	pos := func(n int) string {
		s := "["
		for i := 0; i < n; i++ {
			if i > 0 {
				s += ","
			}
			s += nums[i]
		}
		return s + "]"
	}
	n1, n2 := vfInt("n1", 0, 5), vfInt("n2", 0, 5)
	doc := `{"type":"LineString","coordinates":[` + pos(n1) + `,` + pos(n2) + `]}`
	g, err := UnmarshalGeoJSON([]byte(doc), NoValidate{})
	bad := n1 < 2 || n2 < 2
	vfAssert((err != nil) == bad, "error iff some position has fewer than 2 elements")
	if err == nil {
		vfAssert(g.IsLineString(), "type")
		want3D := n1 >= 3 && n2 >= 3
		vfAssert(g.CoordinatesType().Is3D() == want3D, "3D iff every position has at least 3 elements (mixed input decodes as 2D)")
		vfAssert(!g.CoordinatesType().IsMeasured(), "never measured")
		seq := g.MustAsLineString().Coordinates()
		vfAssert(seq.Length() == 2, "two positions")
		c := seq.Get(1)
		vfAssert(c.X == 1 && c.Y == 2, "X and Y are the first two elements")
		if want3D {
			vfAssert(c.Z == 3, "Z is the third element; further elements are ignored")
		}
		vfReach("decoded")
	} else {
		vfReach("rejected")
	}
	np := vfInt("np", 0, 5)
	pdoc := `{"type":"Point","coordinates":` + pos(np) + `}`
	p, err := UnmarshalGeoJSON([]byte(pdoc), NoValidate{})
	vfAssert((err != nil) == (np == 1), "a Point position of length 1 is an error; length 0 is the empty Point")
	if err == nil {
		vfAssert(p.IsPoint() && p.IsEmpty() == (np == 0), "empty iff no elements")
	}
	var ls LineString
	vfAssert((ls.UnmarshalJSON([]byte(pdoc)) == nil) == false, "decoding a Point document into a LineString fails")
	var pt Point
	vfAssert((pt.UnmarshalJSON([]byte(pdoc)) == nil) == (np != 1), "decoding into the matching concrete type succeeds")
	_, err = UnmarshalGeoJSON([]byte(`{"type":"Circle","coordinates":[1,2]}`), NoValidate{})
	vfAssert(err != nil, "unknown type is an error")
	vfReach("end")
}

// A collection of a full member and a member of symbolic kind (incl. the empty
// geometry of every type), nested one level: the format's only losses are M
// and empty Points inside MultiPoints.
func vfhC06RoundTripCollection() {
	ct := vfCT("ct")
	full := NewPoint(vfFiniteCoords("p", ct)).AsGeometry()
	var other Geometry
	switch vfInt("kind", 0, 8) {
	case 0:
		other = NewEmptyPoint(ct).AsGeometry()
	case 1:
		other = LineString{}.ForceCoordinatesType(ct).AsGeometry()
	case 2:
		other = Polygon{}.ForceCoordinatesType(ct).AsGeometry()
	case 3:
		other = MultiPoint{}.ForceCoordinatesType(ct).AsGeometry()
	case 4:
		other = MultiLineString{}.ForceCoordinatesType(ct).AsGeometry()
	case 5:
		other = MultiPolygon{}.ForceCoordinatesType(ct).AsGeometry()
	case 6:
		other = GeometryCollection{}.ForceCoordinatesType(ct).AsGeometry()
	case 7:
		other = NewMultiLineString([]LineString{NewLineString(vfFiniteSeq("l", 2, ct)), LineString{}.ForceCoordinatesType(ct)}).AsGeometry()
	default:
		other = NewMultiPolygon([]Polygon{Polygon{}.ForceCoordinatesType(ct)}).AsGeometry()
	}
	members := []Geometry{full, other}
	if vfBool("other-first") {
		members[0], members[1] = members[1], members[0]
	}
	g := NewGeometryCollection(members).AsGeometry()
	if vfBool("nested") {
		g = NewGeometryCollection([]Geometry{g}).AsGeometry()
	}
	js, err := g.MarshalJSON()
	vfAssert(err == nil, "marshal succeeds")
	h, err := UnmarshalGeoJSON(js, NoValidate{})
	vfAssert(err == nil, "the output decodes")
	want := vfDropM(g)
	vfAssert(h.CoordinatesType() == want.CoordinatesType(), "Z kept (the document contains a position), M dropped")
	vfAssert(vfGeomBits(h, want), "same structure, XY and Z bit-identical")
	vfReach("end")
}

// The decoder on nested documents built from a grammar: every ring / member has
// its own symbolic position length (0..4). No panic; an error iff some position
// has fewer than 2 elements; otherwise 3D iff every position of the whole
// document has at least 3 elements.
func vfhC06DecodeNested() {
	nums := []string{"1", "2", "3", "4"}
	pos := func(n int, x string) string {
		s := "["
		for i := 0; i < n; i++ {
			if i > 0 {
				s += ","
			}
			if i == 0 {
				s += x
			} else {
				s += nums[i]
			}
		}
		return s + "]"
	}
	ring := func(n int) string { // a closed ring: the X ordinates make it a triangle
		return "[" + pos(n, "0") + "," + pos(n, "5") + "," + pos(n, "9") + "," + pos(n, "0") + "]"
	}
	n1, n2 := vfInt("n1", 0, 4), vfInt("n2", 0, 4)
	var doc string
	kind := vfInt("kind", 0, 4)
	switch kind {
	case 0:
		doc = `{"type":"Polygon","coordinates":[` + ring(n1) + `,` + ring(n2) + `]}`
	case 1:
		doc = `{"type":"MultiLineString","coordinates":[[` + pos(n1, "0") + `,` + pos(n1, "1") + `],[` + pos(n2, "2") + `,` + pos(n2, "3") + `]]}`
	case 2:
		doc = `{"type":"MultiPolygon","coordinates":[[` + ring(n1) + `],[` + ring(n2) + `]]}`
	case 3:
		doc = `{"type":"GeometryCollection","geometries":[{"type":"LineString","coordinates":[` + pos(n1, "0") + `,` + pos(n1, "1") + `]},{"type":"MultiPoint","coordinates":[` + pos(n2, "2") + `]}]}`
	default:
		doc = `{"type":"MultiPoint","coordinates":[` + pos(n1, "0") + `,` + pos(n2, "1") + `]}`
	}
	g, err := UnmarshalGeoJSON([]byte(doc), NoValidate{})
	bad := n1 < 2 || n2 < 2
	vfAssert((err != nil) == bad, "error iff some position is too short")
	if err == nil {
		want3D := n1 >= 3 && n2 >= 3
		vfAssert(g.CoordinatesType().Is3D() == want3D, "3D iff every position of the document has at least 3 elements")
		vfAssert(!g.CoordinatesType().IsMeasured(), "never measured")
		vfAssert(g.Validate() == nil || kind == 0 || kind == 2, "structure is intact")
		_ = g.AsText()
		vfReach("decoded")
	} else {
		vfReach("rejected")
	}
	vfReach("end")
}
