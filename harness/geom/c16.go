//go:build verif

package geom

func init() {
	vfHarnesses["C16_xy_only"] = vfhC16XYOnly
	vfHarnesses["C16_constructors"] = vfhC16Constructors
	vfHarnesses["C16_force"] = vfhC16Force
	vfHarnesses["C16_carry"] = vfhC16Carry
	vfHarnesses["C16_carry_multi"] = vfhC16CarryMulti
	vfHarnesses["C20_transform_empties"] = vfhC16CarryMulti
}

// vfLineF: a LineString of n points with arbitrary ordinates of type ct.
func vfLineF(name string, n int, ct CoordinatesType) LineString {
	return NewLineString(vfSeqF(name, n, ct))
}

// vfKeepsXYAndCommon: every vertex of got has the XY of want and, for the
// dimensions both have, bit-identical Z/M; dimensions got has but want lacks
// are zero.
func vfCoordsForced(want, got Coordinates, target CoordinatesType) bool {
	ok := vfAnd(got.Type == target, vfAnd(vfSameBits(want.X, got.X), vfSameBits(want.Y, got.Y)))
	if target.Is3D() {
		if want.Type.Is3D() {
			ok = vfAnd(ok, vfSameBits(want.Z, got.Z))
		} else {
			ok = vfAnd(ok, got.Z == 0)
		}
	}
	if target.IsMeasured() {
		if want.Type.IsMeasured() {
			ok = vfAnd(ok, vfSameBits(want.M, got.M))
		} else {
			ok = vfAnd(ok, got.M == 0)
		}
	}
	return ok
}

// Constructors reduce mixed inputs to the common coordinate type, and every
// member / ring / point reports that type.
func vfhC16Constructors() {
	ct1, ct2, ct3 := vfCT("ct1"), vfCT("ct2"), vfCT("ct3")
	common := ct1 & ct2 & ct3
	c1, c2 := vfCoords("c1", ct1), vfCoords("c2", ct2)
	p1, p2 := NewPoint(c1), NewPoint(c2)
	e3 := NewEmptyPoint(ct3)

	mp := NewMultiPoint([]Point{p1, p2, e3})
	vfAssert(mp.CoordinatesType() == common, "MultiPoint type is the common subset")
	for i := 0; i < 3; i++ {
		vfAssert(mp.PointN(i).CoordinatesType() == common, "every member point reports it")
	}
	g1, _ := mp.PointN(0).Coordinates()
	vfAssert(vfCoordsForced(c1, g1, common), "member 0 keeps XY and the surviving Z/M bit for bit")
	g2, _ := mp.PointN(1).Coordinates()
	vfAssert(vfCoordsForced(c2, g2, common), "member 1 keeps XY and the surviving Z/M bit for bit")
	vfAssert(mp.PointN(2).IsEmpty(), "the empty member stays empty")

	l1, l2 := vfLineF("l1", 2, ct1), vfLineF("l2", 2, ct2)
	mls := NewMultiLineString([]LineString{l1, l2, LineString{}.ForceCoordinatesType(ct3)})
	vfAssert(mls.CoordinatesType() == common, "MultiLineString type")
	for i := 0; i < 3; i++ {
		vfAssert(mls.LineStringN(i).CoordinatesType() == common && mls.LineStringN(i).Coordinates().CoordinatesType() == common, "every member line and its sequence report it")
	}
	vfAssert(vfCoordsForced(l1.Coordinates().Get(1), mls.LineStringN(0).Coordinates().Get(1), common), "line vertices keep XY and the surviving Z/M")

	poly := NewPolygon([]LineString{l1, l2})
	vfAssert(poly.CoordinatesType() == ct1&ct2, "Polygon type")
	vfAssert(poly.ExteriorRing().CoordinatesType() == ct1&ct2 && poly.InteriorRingN(0).CoordinatesType() == ct1&ct2, "rings report it")

	gc := NewGeometryCollection([]Geometry{p1.AsGeometry(), l2.AsGeometry(), e3.AsGeometry()})
	vfAssert(gc.CoordinatesType() == common, "GeometryCollection type")
	for i := 0; i < 3; i++ {
		vfAssert(gc.GeometryN(i).CoordinatesType() == common, "every member reports it")
	}
	nested := NewGeometryCollection([]Geometry{gc.AsGeometry(), NewPoint(vfCoords("c4", DimXYZM)).AsGeometry()})
	vfAssert(nested.CoordinatesType() == common, "nested collection type")
	vfAssert(nested.GeometryN(0).MustAsGeometryCollection().GeometryN(1).CoordinatesType() == common, "inner members report it")
	vfAssert(NewMultiPoint(nil).CoordinatesType() == DimXY && NewGeometryCollection(nil).CoordinatesType() == DimXY && NewPolygon(nil).CoordinatesType() == DimXY, "no members: XY")
	vfReach("end")
}

// ForceCoordinatesType / Force2D change only what they say.
func vfhC16Force() {
	ct, target := vfCT("ct"), vfCT("target")
	c := vfCoords("c", ct)
	p := NewPoint(c)
	fp := p.ForceCoordinatesType(target)
	gc0, ok := fp.Coordinates()
	vfAssert(ok, "non-empty stays non-empty")
	vfAssert(vfCoordsForced(c, gc0, target), "Point: XY and kept dimensions bit-identical, added ones zero")
	vfAssert(NewEmptyPoint(ct).ForceCoordinatesType(target).CoordinatesType() == target, "empty Point")
	vfAssert(p.Force2D().CoordinatesType() == DimXY, "Force2D")
	// a dropped dimension is gone for good: forcing on to a third type adds zeros,
	// not the values dropped before (Points, and Points inside a MultiPoint)
	third := vfCT("third")
	vis := Coordinates{XY: c.XY, Type: target}
	if target.Is3D() && ct.Is3D() {
		vis.Z = c.Z
	}
	if target.IsMeasured() && ct.IsMeasured() {
		vis.M = c.M
	}
	gc1, ok := fp.ForceCoordinatesType(third).Coordinates()
	vfAssert(ok && vfCoordsForced(vis, gc1, third), "Point forced twice: what the first step dropped comes back as zero")
	mp2 := NewMultiPoint([]Point{p}).ForceCoordinatesType(target).ForceCoordinatesType(third)
	gc2, ok := mp2.PointN(0).Coordinates()
	vfAssert(ok && vfCoordsForced(vis, gc2, third), "MultiPoint member forced twice")

	ls := vfLineF("l", 2, ct)
	fl := ls.ForceCoordinatesType(target)
	vfAssert(fl.CoordinatesType() == target && fl.Coordinates().Length() == 2, "LineString type and length")
	for i := 0; i < 2; i++ {
		vfAssert(vfCoordsForced(ls.Coordinates().Get(i), fl.Coordinates().Get(i), target), "LineString vertices")
	}
	vfAssert(LineString{}.ForceCoordinatesType(ct).ForceCoordinatesType(target).CoordinatesType() == target, "empty LineString")

	poly := NewPolygon([]LineString{ls}).ForceCoordinatesType(target)
	vfAssert(poly.CoordinatesType() == target && poly.ExteriorRing().CoordinatesType() == target, "Polygon and ring")
	vfAssert(Polygon{}.ForceCoordinatesType(target).CoordinatesType() == target, "empty Polygon")
	mp := NewMultiPoint([]Point{p, NewEmptyPoint(ct)}).ForceCoordinatesType(target)
	vfAssert(mp.CoordinatesType() == target && mp.PointN(0).CoordinatesType() == target && mp.PointN(1).CoordinatesType() == target, "MultiPoint and members")
	vfAssert(MultiPoint{}.ForceCoordinatesType(target).CoordinatesType() == target, "empty MultiPoint")
	mls := NewMultiLineString([]LineString{ls}).ForceCoordinatesType(target)
	vfAssert(mls.CoordinatesType() == target && mls.LineStringN(0).CoordinatesType() == target, "MultiLineString and members")
	vfAssert(MultiLineString{}.ForceCoordinatesType(target).CoordinatesType() == target, "empty MultiLineString")
	mpoly := NewMultiPolygon([]Polygon{NewPolygon([]LineString{ls})}).ForceCoordinatesType(target)
	vfAssert(mpoly.CoordinatesType() == target && mpoly.PolygonN(0).CoordinatesType() == target, "MultiPolygon and members")
	vfAssert(MultiPolygon{}.ForceCoordinatesType(target).CoordinatesType() == target, "empty MultiPolygon")
	gc := NewGeometryCollection([]Geometry{p.AsGeometry(), ls.AsGeometry()}).ForceCoordinatesType(target)
	vfAssert(gc.CoordinatesType() == target && gc.GeometryN(0).CoordinatesType() == target && gc.GeometryN(1).CoordinatesType() == target, "GeometryCollection and members")
	vfAssert(GeometryCollection{}.ForceCoordinatesType(target).CoordinatesType() == target, "empty GeometryCollection")
	vfAssert(Geometry{}.ForceCoordinatesType(target).CoordinatesType() == target, "zero Geometry")
	vfReach("end")
}

// Structure-preserving operations carry each vertex's Z and M with its XY;
// XY-only operations return XY.
func vfhC16Carry() {
	ct := vfCT("ct")
	ls := vfLineF("l", 3, ct)
	seq := ls.Coordinates()
	rev := ls.Reverse()
	vfAssert(rev.CoordinatesType() == ct, "Reverse keeps the type")
	for i := 0; i < 3; i++ {
		vfAssert(vfCoordsForced(seq.Get(i), rev.Coordinates().Get(2-i), ct), "Reverse carries Z/M with XY")
	}
	vfAssert(vfSameSeqBits(rev.Reverse().Coordinates(), seq), "Reverse is an involution")
	dx := vfFloat64("dx")
	tr := ls.TransformXY(func(p XY) XY { return XY{p.X + dx, p.Y} })
	vfAssert(tr.CoordinatesType() == ct, "TransformXY keeps the type")
	for i := 0; i < 3; i++ {
		a, b := seq.Get(i), tr.Coordinates().Get(i)
		if ct.Is3D() {
			vfAssert(vfSameBits(a.Z, b.Z), "TransformXY carries Z")
		}
		if ct.IsMeasured() {
			vfAssert(vfSameBits(a.M, b.M), "TransformXY carries M")
		}
	}
	dump := ls.AsGeometry().DumpCoordinates()
	vfAssert(vfSameSeqBits(dump, seq), "DumpCoordinates")
	ml := ls.AsMultiLineString()
	vfAssert(ml.CoordinatesType() == ct && vfSameSeqBits(ml.LineStringN(0).Coordinates(), seq), "AsMultiLineString")
	p := NewPoint(seq.Get(0))
	amp := p.AsMultiPoint()
	c0, _ := amp.PointN(0).Coordinates()
	vfAssert(amp.CoordinatesType() == ct && vfCoordsForced(seq.Get(0), c0, ct), "AsMultiPoint")
	// XY-only results
	vfAssert(ls.Envelope().AsGeometry().CoordinatesType() == DimXY, "Envelope geometry is XY")
	vfAssert(p.Centroid().CoordinatesType() == DimXY || p.Centroid().IsEmpty(), "Centroid is XY")
	vfReach("end")
}

// Structure-preserving operations on Multi* geometries and collections with
// empty members keep the coordinate type of the geometry and of every member,
// and carry Z/M with XY.
func vfhC16CarryMulti() {
	ct := vfCT("ct")
	c0, c1 := vfCoords("c0", ct), vfCoords("c1", ct)
	pts := []Point{NewPoint(c0), NewEmptyPoint(ct), NewPoint(c1)}
	switch vfInt("empty-at", 0, 2) {
	case 0:
		pts[0], pts[1] = pts[1], pts[0]
	case 2:
		pts[2], pts[1] = pts[1], pts[2]
	}
	mp := NewMultiPoint(pts)
	l := vfLineF("l", 2, ct)
	mls := NewMultiLineString([]LineString{l, LineString{}.ForceCoordinatesType(ct)})
	gc := NewGeometryCollection([]Geometry{mp.AsGeometry(), NewEmptyPoint(ct).AsGeometry(), l.AsGeometry()})
	id := func(p XY) XY { return p }
	check := func(g Geometry, what string) {
		vfAssert(g.CoordinatesType() == ct, what)
		switch {
		case g.IsMultiPoint():
			m := g.MustAsMultiPoint()
			for i := 0; i < m.NumPoints(); i++ {
				vfAssert(m.PointN(i).CoordinatesType() == ct, what)
			}
		case g.IsMultiLineString():
			m := g.MustAsMultiLineString()
			for i := 0; i < m.NumLineStrings(); i++ {
				vfAssert(m.LineStringN(i).CoordinatesType() == ct, what)
			}
		case g.IsGeometryCollection():
			c := g.MustAsGeometryCollection()
			for i := 0; i < c.NumGeometries(); i++ {
				vfAssert(c.GeometryN(i).CoordinatesType() == ct, what)
			}
		}
	}
	switch vfInt("op", 0, 5) {
	case 0:
		t := mp.TransformXY(id)
		check(t.AsGeometry(), "MultiPoint.TransformXY keeps the coordinate type everywhere")
		vfAssert(vfGeomBits(t.AsGeometry(), mp.AsGeometry()), "and, for the identity, every ordinate")
	case 1:
		t := mls.TransformXY(id)
		check(t.AsGeometry(), "MultiLineString.TransformXY keeps the coordinate type everywhere")
		vfAssert(vfGeomBits(t.AsGeometry(), mls.AsGeometry()), "and, for the identity, every ordinate")
	case 2:
		t := gc.TransformXY(id)
		check(t.AsGeometry(), "GeometryCollection.TransformXY keeps the coordinate type everywhere")
		vfAssert(vfGeomBits(t.AsGeometry(), gc.AsGeometry()), "and, for the identity, every ordinate")
	case 3:
		check(mp.Reverse().AsGeometry(), "MultiPoint.Reverse keeps the coordinate type everywhere")
		check(mls.Reverse().AsGeometry(), "MultiLineString.Reverse keeps the coordinate type everywhere")
		check(gc.Reverse().AsGeometry(), "GeometryCollection.Reverse keeps the coordinate type everywhere")
	case 4:
		d := gc.Dump()
		for _, g := range d {
			vfAssert(g.CoordinatesType() == ct, "Dump keeps the coordinate type of every part")
		}
		vfAssert(gc.AsGeometry().DumpCoordinates().CoordinatesType() == ct, "DumpCoordinates keeps the coordinate type")
	default:
		check(mp.ForceCoordinatesType(ct).AsGeometry(), "forcing the same type changes nothing")
		vfAssert(vfGeomBits(mp.ForceCoordinatesType(ct).AsGeometry(), mp.AsGeometry()), "forcing the same type changes nothing")
	}
	vfReach("end")
}

// The operations defined on XY only return XY geometries whatever the coordinate
// type of the operand: every geometry of the shape tables (plus lineal cases
// whose PointOnSurface is a start or an end vertex) forced to a symbolic
// coordinate type.
func vfhC16XYOnly() {
	all := append(append(append([][2]string{}, vfC01Shapes...), vfC02Shapes...), vfC09Extra...)
	all = append(all,
		[2]string{"MULTILINESTRING((0 0,4 0),(10 0,5 0))", "MULTILINESTRING((5 0,10 0),(0 0,4 0))"},
		[2]string{"LINESTRING(0 0,4 0)", "GEOMETRYCOLLECTION(MULTILINESTRING((0 0,4 0),(10 0,5 0)),POINT(1 1))"},
	)
	k := vfInt("case", 0, len(all)-1)
	side := 0
	if vfBool("second") {
		side = 1
	}
	g2, err := UnmarshalWKT(all[k][side])
	vfAssert(err == nil, "operand parses")
	ct := vfCT("ct")
	g := g2.ForceCoordinatesType(ct)
	vfAssert(g.CoordinatesType() == ct, "forced to the coordinate type")
	vfAssert(g.Centroid().CoordinatesType() == DimXY, "Centroid is XY")
	vfAssert(g.ConvexHull().CoordinatesType() == DimXY, "ConvexHull is XY")
	vfAssert(g.PointOnSurface().CoordinatesType() == DimXY, "PointOnSurface is XY")
	vfAssert(g.Envelope().AsGeometry().CoordinatesType() == DimXY, "Envelope is XY")
	vfAssert(g.Envelope().BoundingDiagonal().CoordinatesType() == DimXY, "BoundingDiagonal is XY")
	other, err := UnmarshalWKT(all[k][1-side])
	vfAssert(err == nil, "other operand parses")
	u, err := Union(g, other.ForceCoordinatesType(ct))
	vfAssert(err == nil && u.CoordinatesType() == DimXY, "Union is XY")
	x, err := Intersection(g, other)
	vfAssert(err == nil && x.CoordinatesType() == DimXY, "Intersection is XY")
	uu, err := UnaryUnion(g)
	vfAssert(err == nil && uu.CoordinatesType() == DimXY, "UnaryUnion is XY")
	vfReach("end")
}
