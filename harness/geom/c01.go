//go:build verif

package geom

func init() {
	vfHarnesses["C01_intersect_line"] = vfhC01IntersectLine
	vfHarnesses["C01_point_point"] = vfhC01PointPoint
	vfHarnesses["C01_point_line"] = vfhC01PointLine
	vfHarnesses["C01_selectors"] = vfhC01Selectors
}

// Lemma: line.intersectLine classification (empty / point / overlap) against
// the exact oracle; when the intersection is an input end point or a collinear
// overlap the returned points are exact.
func vfhC01IntersectLine() {
	a, b, c, d := vfPt("a"), vfPt("b"), vfPt("c"), vfPt("d")
	vfAssume(!vfEqXY(a, b))
	vfAssume(!vfEqXY(c, d))
	l1, l2 := line{a, b}, line{c, d}
	inter := l1.intersectLine(l2)
	meet := vfSegsMeet(a, b, c, d)
	vfAssert(inter.empty == !meet, "empty iff the closed segments are disjoint")
	rev := l2.intersectLine(l1)
	vfAssert(rev.empty == inter.empty, "symmetric in the two segments")
	if !inter.empty {
		collinear := vfAnd(vfCross(a, b, c) == 0, vfCross(a, b, d) == 0)
		isPoint := inter.ptA == inter.ptB
		if collinear {
			// both returned points lie on both segments
			vfAssert(vfAnd(vfOnSeg(inter.ptA, a, b), vfOnSeg(inter.ptA, c, d)), "overlap start lies on both segments")
			vfAssert(vfAnd(vfOnSeg(inter.ptB, a, b), vfOnSeg(inter.ptB, c, d)), "overlap end lies on both segments")
			vfReach("collinear")
		} else {
			vfAssert(isPoint, "non-collinear segments meet in a single point")
			vfReach("single")
		}
	} else {
		vfReach("disjoint")
	}
	vfReach("end")
}

// The four selectors against the truth table.
func vfhC01Selectors() {
	a, b := vfBool("a"), vfBool("b")
	vfAssert(or([2]bool{a, b}) == vfOr(a, b), "union")
	vfAssert(and([2]bool{a, b}) == vfAnd(a, b), "intersection")
	vfAssert(andNot([2]bool{a, b}) == vfAnd(a, !b), "difference")
	vfAssert(xor([2]bool{a, b}) == (a != b), "symmetric difference")
	vfReach("end")
}

// vfHasPoint: probe q is in the point set of a result made of points and
// 2-point lines (exact locate on the lattice).
func vfHasPoint(g Geometry, q XY) bool {
	switch {
	case g.IsEmpty():
		return false
	case g.IsPoint():
		xy, _ := g.MustAsPoint().XY()
		return vfEqXY(xy, q)
	case g.IsMultiPoint():
		mp := g.MustAsMultiPoint()
		in := false
		for i := 0; i < mp.NumPoints(); i++ {
			xy, ok := mp.PointN(i).XY()
			if ok {
				in = vfOr(in, vfEqXY(xy, q))
			}
		}
		return in
	case g.IsLineString():
		seq := g.MustAsLineString().Coordinates()
		in := false
		for i := 0; i+1 < seq.Length(); i++ {
			in = vfOr(in, vfOnSeg(q, seq.GetXY(i), seq.GetXY(i+1)))
		}
		return in
	case g.IsMultiLineString():
		m := g.MustAsMultiLineString()
		in := false
		for i := 0; i < m.NumLineStrings(); i++ {
			in = vfOr(in, vfHasPoint(m.LineStringN(i).AsGeometry(), q))
		}
		return in
	case g.IsGeometryCollection():
		c := g.MustAsGeometryCollection()
		in := false
		for i := 0; i < c.NumGeometries(); i++ {
			in = vfOr(in, vfHasPoint(c.GeometryN(i), q))
		}
		return in
	}
	vfAssert(false, "unexpected areal result")
	return false
}

// Overlay of two Points: the four set operations, every location q.
func vfhC01PointPoint() {
	p1, p2, q := vfPtO("p1"), vfPtO("p2"), vfPtO("q")
	a, b := vfPointXY(p1).AsGeometry(), vfPointXY(p2).AsGeometry()
	inA, inB := vfEqXY(q, p1), vfEqXY(q, p2)
	u, err := Union(a, b)
	vfAssert(err == nil && u.Validate() == nil, "Union succeeds with a valid result")
	vfAssert(vfHasPoint(u, q) == vfOr(inA, inB), "q in Union iff in A or B")
	i, err := Intersection(a, b)
	vfAssert(err == nil && i.Validate() == nil, "Intersection succeeds with a valid result")
	vfAssert(vfHasPoint(i, q) == vfAnd(inA, inB), "q in Intersection iff in A and B")
	d, err := Difference(a, b)
	vfAssert(err == nil && d.Validate() == nil, "Difference succeeds with a valid result")
	vfAssert(vfHasPoint(d, q) == vfAnd(inA, !inB), "q in Difference iff in A and not B")
	s, err := SymmetricDifference(a, b)
	vfAssert(err == nil && s.Validate() == nil, "SymmetricDifference succeeds with a valid result")
	vfAssert(vfHasPoint(s, q) == (inA != inB), "q in SymmetricDifference iff in exactly one")
	vfAssert(u.Dimension() == 0 && !u.IsGeometryCollection(), "canonical shape: points only")
	vfReach("end")
}

// Overlay of a Point and a 2-point LineString.
func vfhC01PointLine() {
	p, a, b, q := vfPtO("p"), vfPtO("a"), vfPtO("b"), vfPtO("q")
	vfAssume(!vfEqXY(a, b))
	ga, gb := vfPointXY(p).AsGeometry(), vfLineXY(a, b).AsGeometry()
	inA, inB := vfEqXY(q, p), vfOnSeg(q, a, b)
	u, err := Union(ga, gb)
	vfAssert(err == nil && u.Validate() == nil, "Union succeeds with a valid result")
	vfAssert(vfHasPoint(u, q) == vfOr(inA, inB), "q in Union iff in A or B")
	i, err := Intersection(ga, gb)
	vfAssert(err == nil && i.Validate() == nil, "Intersection succeeds with a valid result")
	vfAssert(vfHasPoint(i, q) == vfAnd(inA, inB), "q in Intersection iff in A and B")
	d, err := Difference(ga, gb)
	vfAssert(err == nil && d.Validate() == nil, "Difference succeeds with a valid result")
	vfAssert(vfHasPoint(d, q) == vfAnd(inA, !inB), "q in Point minus Line iff in A and not B")
	vfReach("end")
}

// vfStubDistXYLine replaces distBetweenXYAndLine inside the overlay harnesses.
// The re-noding step only compares its result with the threshold ulp*0x200
// (at most 2^-33 for |c| <= 2^10). For lattice operands the true distance is 0
// when the point lies on the closed segment and at least 2^-12 otherwise, and
// the float computation is accurate to about 2^-40: the comparison therefore
// holds iff the point lies on the segment. That error analysis is an assumption
// of the overlay harnesses (listed in evidence), not something they check.
func vfStubDistXYLine(xy XY, ln line) float64 {
	if vfOnSeg(xy, ln.a, ln.b) {
		return 0
	}
	return 1
}
