//go:build verif

package geom

func init() {
	vfHarnesses["C14_centroid_weights"] = vfhC14CentroidWeights
}

// Polygon.Centroid combines the ring centroids with the right weights: shell
// +|area|, holes -|area|, whatever the orientation of each ring and wherever the
// hole sits. Shell: the 8x6 rectangle written clockwise or counter-clockwise;
// hole: a lattice translate of a 2x1 rectangle strictly inside it, either
// orientation. The ring-centroid kernel and the weight quotient are the
// library's own (uninterpreted here: the comparison is term against term), the
// areas are the exact ones (48, 2).
func vfhC14CentroidWeights() {
	t := vfPt("t")
	vfAssume(vfAnd(vfAnd(t.X >= 1, t.X <= 5), vfAnd(t.Y >= 1, t.Y <= 4)))
	var shell, hole LineString
	if vfBool("shell-cw") {
		shell = NewLineStringXY(0, 0, 0, 6, 8, 6, 8, 0, 0, 0)
	} else {
		shell = NewLineStringXY(0, 0, 8, 0, 8, 6, 0, 6, 0, 0)
	}
	a, b, c, d := t, XY{t.X + 2, t.Y}, XY{t.X + 2, t.Y + 1}, XY{t.X, t.Y + 1}
	if vfBool("hole-cw") {
		hole = vfLineXY(a, d, c, b, a)
	} else {
		hole = vfLineXY(a, b, c, d, a)
	}
	poly := NewPolygon([]LineString{shell, hole})
	vfAssert(poly.Area() == 46, "area = shell - hole")
	got, ok := poly.Centroid().XY()
	vfAssert(ok, "non-empty")
	// the hole's area from its own two sides (|ab x ad|): an exact polynomial that
	// equals 2; the solver identifies it with the library's shoelace sum
	ah := (b.X-a.X)*(d.Y-a.Y) - (d.X-a.X)*(b.Y-a.Y)
	vfAssert(ah == 2, "the hole's area is 2")
	total := 48 - ah
	want := weightedCentroid(shell, 48, total).Add(weightedCentroid(hole, -ah, total))
	vfAssert(vfAnd(got.X == want.X, got.Y == want.Y), "Centroid = shell centroid * |shell|/area - hole centroid * |hole|/area")
	// the same polygon written the other way round has the same weights
	rev, ok := poly.Reverse().Centroid().XY()
	wantRev := weightedCentroid(shell.Reverse(), 48, total).Add(weightedCentroid(hole.Reverse(), -ah, total))
	vfAssert(ok && vfAnd(rev.X == wantRev.X, rev.Y == wantRev.Y), "the reversed polygon uses the same weights")
	vfReach("end")
}
