//go:build verif

package geom

func init() {
	vfHarnesses["C14_collection_grouping"] = vfhC14CollectionGrouping
	vfHarnesses["C14_centroid_weights"] = vfhC14CentroidWeights
}

// Polygon.Centroid combines the ring centroids with the right weights: shell
// +|area|, holes -|area|, whatever the orientation of each ring and wherever the
// hole sits. Shell: the 8x6 rectangle written clockwise or counter-clockwise;
// hole: a lattice translate of a 2x1 rectangle strictly inside it, either
// orientation. The ring-centroid kernel and the weight quotient are the
// library's own (uninterpreted here: the comparison is term against term), the
// areas are the exact ones (48, 2).
func vfhC14CentroidWeights() {
	t := vfPt("t")
	vfAssume(vfAnd(vfAnd(t.X >= 1, t.X <= 5), vfAnd(t.Y >= 1, t.Y <= 2)))
	var shell, hole LineString
	if vfBool("shell-cw") {
		shell = NewLineStringXY(0, 0, 0, 6, 8, 6, 8, 0, 0, 0)
	} else {
		shell = NewLineStringXY(0, 0, 8, 0, 8, 6, 0, 6, 0, 0)
	}
	a, b, c, d := t, XY{t.X + 2, t.Y}, XY{t.X + 2, t.Y + 1}, XY{t.X, t.Y + 1}
	if vfBool("hole-cw") {
		hole = vfLineXY(a, d, c, b, a)
	} else {
		hole = vfLineXY(a, b, c, d, a)
	}
	// a second, fixed hole above the first one (1.5 x 1 at (5,4)): three rings in all
	hole2 := NewLineStringXY(5, 4, 6.5, 4, 6.5, 5, 5, 5, 5, 4)
	rings := []LineString{shell, hole, hole2}
	if vfBool("hole2-first") {
		rings = []LineString{shell, hole2, hole}
	}
	two := NewPolygon(rings)
	vfAssert(two.Area() == 44.5, "area = shell - both holes")
	got2, ok2 := two.Centroid().XY()
	ah1 := (b.X-a.X)*(d.Y-a.Y) - (d.X-a.X)*(b.Y-a.Y)
	tot2 := 48 - ah1 - 1.5
	var want2 XY
	if rings[1].Coordinates().GetXY(0) == hole2.Coordinates().GetXY(0) {
		want2 = weightedCentroid(shell, 48, tot2).Add(weightedCentroid(hole2, -1.5, tot2)).Add(weightedCentroid(hole, -ah1, tot2))
	} else {
		want2 = weightedCentroid(shell, 48, tot2).Add(weightedCentroid(hole, -ah1, tot2)).Add(weightedCentroid(hole2, -1.5, tot2))
	}
	vfAssert(ok2 && vfAnd(got2.X == want2.X, got2.Y == want2.Y), "with two holes every ring contributes its weighted centroid")
	poly := NewPolygon([]LineString{shell, hole})
	vfAssert(poly.Area() == 46, "area = shell - hole")
	got, ok := poly.Centroid().XY()
	vfAssert(ok, "non-empty")
	// the hole's area from its own two sides (|ab x ad|): an exact polynomial that
	// equals 2; the solver identifies it with the library's shoelace sum
	ah := (b.X-a.X)*(d.Y-a.Y) - (d.X-a.X)*(b.Y-a.Y)
	vfAssert(ah == 2, "the hole's area is 2")
	total := 48 - ah
	want := weightedCentroid(shell, 48, total).Add(weightedCentroid(hole, -ah, total))
	vfAssert(vfAnd(got.X == want.X, got.Y == want.Y), "Centroid = shell centroid * |shell|/area - hole centroid * |hole|/area")
	// a MultiPolygon weighs each member by its net area (shell minus holes)
	far := NewPolygon([]LineString{NewLineStringXY(20, 0, 23, 0, 23, 2, 20, 2, 20, 0)}) // area 6
	mpoly := NewMultiPolygon([]Polygon{poly, far})
	mc, okm := mpoly.Centroid().XY()
	c0, ok0 := poly.Centroid().XY()
	c1, ok1 := far.Centroid().XY()
	vfAssert(okm && ok0 && ok1, "non-empty")
	mtot := 0 + (48 - ah) + 6
	var mwant XY
	mwant = mwant.Add(c0.Scale((48 - ah) / mtot)).Add(c1.Scale(6 / mtot))
	vfAssert(vfAnd(mc.X == mwant.X, mc.Y == mwant.Y), "MultiPolygon.Centroid = member centroids weighted by NET area / total")
	// the same polygon written the other way round has the same weights
	rev, ok := poly.Reverse().Centroid().XY()
	wantRev := weightedCentroid(shell.Reverse(), 48, total).Add(weightedCentroid(hole.Reverse(), -ah, total))
	vfAssert(ok && vfAnd(rev.X == wantRev.X, rev.Y == wantRev.Y), "the reversed polygon uses the same weights")
	vfReach("end")
}

// Collection centroids do not depend on how the lineal / puntal members are
// grouped: GC(MULTILINESTRING(a,b)), GC(a,b) and GC(GC(a),MULTILINESTRING(b))
// weigh each line by its own length (the library's rounded operations compared
// term against term), and the same for points in a MultiPoint.
func vfhC14CollectionGrouping() {
	a0, a1, b0, b1 := vfPt("a0"), vfPt("a1"), vfPt("b0"), vfPt("b1")
	vfAssume(!vfEqXY(a0, a1))
	vfAssume(!vfEqXY(b0, b1))
	la, lb := vfLineXY(a0, a1), vfLineXY(b0, b1)
	flat := NewGeometryCollection([]Geometry{la.AsGeometry(), lb.AsGeometry()})
	grouped := NewGeometryCollection([]Geometry{NewMultiLineString([]LineString{la, lb}).AsGeometry()})
	mixed := NewGeometryCollection([]Geometry{
		NewGeometryCollection([]Geometry{la.AsGeometry()}).AsGeometry(),
		NewMultiLineString([]LineString{lb}).AsGeometry(),
		vfPointXY(a0).AsGeometry(), // lower-dimensional members do not count
	})
	want, ok := flat.Centroid().XY()
	vfAssert(ok, "non-empty")
	for _, g := range []GeometryCollection{grouped, mixed} {
		got, ok := g.Centroid().XY()
		vfAssert(ok && vfAnd(got.X == want.X, got.Y == want.Y), "the centroid of lines does not depend on their grouping into MultiLineStrings or nested collections")
	}
	vfAssert(flat.Length() == grouped.Length() && flat.Length() == mixed.Length(), "Length is additive over members whatever the grouping")
	pf := NewGeometryCollection([]Geometry{vfPointXY(a0).AsGeometry(), vfPointXY(a1).AsGeometry(), vfPointXY(b0).AsGeometry()})
	pg := NewGeometryCollection([]Geometry{NewMultiPoint([]Point{vfPointXY(a0), vfPointXY(a1)}).AsGeometry(), vfPointXY(b0).AsGeometry()})
	cf, ok1 := pf.Centroid().XY()
	cg, ok2 := pg.Centroid().XY()
	vfAssert(ok1 && ok2 && vfAnd(cf.X == cg.X, cf.Y == cg.Y), "the centroid of points does not depend on their grouping into MultiPoints")
	vfReach("end")
}
