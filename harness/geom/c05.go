//go:build verif

package geom

func init() {
	vfHarnesses["C05_roundtrip_simple"] = vfhC05RoundTripSimple
	vfHarnesses["C05_roundtrip_multi"] = vfhC05RoundTripMulti
	vfHarnesses["C05_respell"] = vfhC05Respell
}

func vfFiniteSeq(name string, n int, ct CoordinatesType) Sequence {
	seq := vfSeqF(name, n, ct)
	for i := 0; i < n; i++ {
		c := seq.Get(i)
		vfAssume(vfAnd(vfFinite(c.X), vfFinite(c.Y)))
		if ct.Is3D() {
			vfAssume(vfFinite(c.Z))
		}
		if ct.IsMeasured() {
			vfAssume(vfFinite(c.M))
		}
	}
	return seq
}

// vfSameWKB: structural identity through the (C04-checked) WKB encoding.
func vfSameWKB(a, b Geometry) bool {
	x, y := a.AsBinary(), b.AsBinary()
	if len(x) != len(y) {
		return false
	}
	eq := true
	for i := range x {
		eq = vfAnd(eq, x[i] == y[i])
	}
	return eq
}

func vfCheckWKT(g Geometry) {
	txt := g.AsText()
	vfAssert(string(g.AppendWKT([]byte("prefix "))) == "prefix "+txt, "AppendWKT(prefix) = prefix + AsText")
	h, err := UnmarshalWKT(txt, NoValidate{})
	vfAssert(err == nil, "the text re-parses")
	vfAssert(h.Type() == g.Type(), "same type")
	vfAssert(h.CoordinatesType() == g.CoordinatesType(), "same coordinate type")
	vfAssert(vfSameWKB(g, h), "structurally identical with the same ordinates in the same positions (equal WKB)")
}

// Point / LineString / Polygon, full or empty, coordinate type symbolic,
// finite ordinates (each rendered as an opaque numeral token).
func vfhC05RoundTripSimple() {
	ct := vfCT("ct")
	switch vfInt("shape", 0, 5) {
	case 0:
		vfCheckWKT(NewEmptyPoint(ct).AsGeometry())
	case 1:
		vfCheckWKT(NewPoint(vfFiniteCoords("p", ct)).AsGeometry())
	case 2:
		vfCheckWKT(LineString{}.ForceCoordinatesType(ct).AsGeometry())
	case 3:
		vfCheckWKT(NewLineString(vfFiniteSeq("l", 2, ct)).AsGeometry())
	case 4:
		vfCheckWKT(Polygon{}.ForceCoordinatesType(ct).AsGeometry())
	default:
		vfCheckWKT(NewPolygon([]LineString{NewLineString(vfFiniteSeq("r0", 4, ct)), NewLineString(vfFiniteSeq("r1", 4, ct))}).AsGeometry())
	}
	vfReach("end")
}

// Multi types and collections with empty members at symbolic positions.
func vfhC05RoundTripMulti() {
	ct := vfCT("ct")
	pt := func(name string) Point {
		if vfBool(name + ".empty") {
			return NewEmptyPoint(ct)
		}
		return NewPoint(vfFiniteCoords(name, ct))
	}
	ln := func(name string) LineString {
		if vfBool(name + ".empty") {
			return LineString{}.ForceCoordinatesType(ct)
		}
		return NewLineString(vfFiniteSeq(name, 2, ct))
	}
	switch vfInt("shape", 0, 4) {
	case 0:
		vfCheckWKT(NewMultiPoint([]Point{pt("a"), pt("b")}).AsGeometry())
	case 1:
		vfCheckWKT(NewMultiLineString([]LineString{ln("a"), ln("b")}).AsGeometry())
	case 2:
		poly := NewPolygon([]LineString{NewLineString(vfFiniteSeq("r", 4, ct))})
		vfCheckWKT(NewMultiPolygon([]Polygon{poly, Polygon{}.ForceCoordinatesType(ct)}).AsGeometry())
	case 3:
		inner := NewGeometryCollection([]Geometry{pt("c").AsGeometry()}).ForceCoordinatesType(ct)
		vfCheckWKT(NewGeometryCollection([]Geometry{pt("a").AsGeometry(), ln("b").AsGeometry(), inner.AsGeometry(), GeometryCollection{}.ForceCoordinatesType(ct).AsGeometry()}).AsGeometry())
	default:
		vfCheckWKT(MultiPoint{}.ForceCoordinatesType(ct).AsGeometry())
		vfCheckWKT(MultiLineString{}.ForceCoordinatesType(ct).AsGeometry())
		vfCheckWKT(MultiPolygon{}.ForceCoordinatesType(ct).AsGeometry())
		vfCheckWKT(GeometryCollection{}.ForceCoordinatesType(ct).AsGeometry())
	}
	vfReach("end")
}

// Token-level re-spellings that do not touch numerals: keyword case, white
// space, bare MultiPoint members; trailing tokens are rejected.
func vfhC05Respell() {
	p := vfFiniteCoords("p", DimXY)
	q := vfFiniteCoords("q", DimXY)
	mp := NewMultiPoint([]Point{NewPoint(p), NewPoint(q)}).AsGeometry()
	x, y := appendFloat(nil, p.X), appendFloat(nil, p.Y)
	u, v := appendFloat(nil, q.X), appendFloat(nil, q.Y)
	var txt string
	switch vfInt("spelling", 0, 3) {
	case 0:
		txt = "multipoint((" + string(x) + " " + string(y) + "),(" + string(u) + " " + string(v) + "))"
	case 1:
		txt = "MultiPoint ( " + string(x) + "\t" + string(y) + " ,\n" + string(u) + "  " + string(v) + " ) "
	case 2:
		txt = "MULTIPOINT(" + string(x) + " " + string(y) + "," + string(u) + " " + string(v) + ")"
	default:
		txt = " MULTIPOINT\n(\n(" + string(x) + " " + string(y) + ")\n,\n(" + string(u) + " " + string(v) + ")\n)\n"
	}
	g, err := UnmarshalWKT(txt, NoValidate{})
	vfAssert(err == nil, "re-spelled text parses")
	vfAssert(vfSameWKB(g, mp), "and gives the same geometry")
	_, err = UnmarshalWKT(txt+" POINT", NoValidate{})
	vfAssert(err != nil, "a trailing token is rejected")
	_, err = UnmarshalWKT(txt+")", NoValidate{})
	vfAssert(err != nil, "a trailing parenthesis is rejected")
	vfReach("end")
}
