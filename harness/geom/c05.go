//go:build verif

package geom

import (
	"math"
	"strconv"
)

func init() {
	vfHarnesses["C05_numerals"] = vfhC05Numerals
	vfHarnesses["C05_numerals_long"] = vfhC05NumeralsLong
	vfHarnesses["C05_roundtrip_simple"] = vfhC05RoundTripSimple
	vfHarnesses["C05_roundtrip_multi"] = vfhC05RoundTripMulti
	vfHarnesses["C05_respell"] = vfhC05Respell
}

func vfFiniteSeq(name string, n int, ct CoordinatesType) Sequence {
	seq := vfSeqF(name, n, ct)
	for i := 0; i < n; i++ {
		c := seq.Get(i)
		vfAssume(vfAnd(vfFinite(c.X), vfFinite(c.Y)))
		if ct.Is3D() {
			vfAssume(vfFinite(c.Z))
		}
		if ct.IsMeasured() {
			vfAssume(vfFinite(c.M))
		}
	}
	return seq
}

// vfSameWKB: structural identity through the (C04-checked) WKB encoding.
func vfSameWKB(a, b Geometry) bool {
	x, y := a.AsBinary(), b.AsBinary()
	if len(x) != len(y) {
		return false
	}
	eq := true
	for i := range x {
		eq = vfAnd(eq, x[i] == y[i])
	}
	return eq
}

func vfCheckWKT(g Geometry) {
	txt := g.AsText()
	vfAssert(string(g.AppendWKT([]byte("prefix "))) == "prefix "+txt, "AppendWKT(prefix) = prefix + AsText")
	h, err := UnmarshalWKT(txt, NoValidate{})
	vfAssert(err == nil, "the text re-parses")
	vfAssert(h.Type() == g.Type(), "same type")
	vfAssert(h.CoordinatesType() == g.CoordinatesType(), "same coordinate type")
	vfAssert(vfSameWKB(g, h), "structurally identical with the same ordinates in the same positions (equal WKB)")
}

// Point / LineString / Polygon, full or empty, coordinate type symbolic,
// finite ordinates (each rendered as an opaque numeral token).
func vfhC05RoundTripSimple() {
	ct := vfCT("ct")
	switch vfInt("shape", 0, 5) {
	case 0:
		vfCheckWKT(NewEmptyPoint(ct).AsGeometry())
	case 1:
		vfCheckWKT(NewPoint(vfFiniteCoords("p", ct)).AsGeometry())
	case 2:
		vfCheckWKT(LineString{}.ForceCoordinatesType(ct).AsGeometry())
	case 3:
		vfCheckWKT(NewLineString(vfFiniteSeq("l", 2, ct)).AsGeometry())
	case 4:
		vfCheckWKT(Polygon{}.ForceCoordinatesType(ct).AsGeometry())
	default:
		vfCheckWKT(NewPolygon([]LineString{NewLineString(vfFiniteSeq("r0", 4, ct)), NewLineString(vfFiniteSeq("r1", 4, ct))}).AsGeometry())
	}
	vfReach("end")
}

// Multi types and collections with empty members at symbolic positions.
func vfhC05RoundTripMulti() {
	ct := vfCT("ct")
	pt := func(name string) Point {
		if vfBool(name + ".empty") {
			return NewEmptyPoint(ct)
		}
		return NewPoint(vfFiniteCoords(name, ct))
	}
	ln := func(name string) LineString {
		if vfBool(name + ".empty") {
			return LineString{}.ForceCoordinatesType(ct)
		}
		return NewLineString(vfFiniteSeq(name, 2, ct))
	}
	switch vfInt("shape", 0, 4) {
	case 0:
		vfCheckWKT(NewMultiPoint([]Point{pt("a"), pt("b")}).AsGeometry())
	case 1:
		vfCheckWKT(NewMultiLineString([]LineString{ln("a"), ln("b")}).AsGeometry())
	case 2:
		poly := NewPolygon([]LineString{NewLineString(vfFiniteSeq("r", 4, ct))})
		vfCheckWKT(NewMultiPolygon([]Polygon{poly, Polygon{}.ForceCoordinatesType(ct)}).AsGeometry())
	case 3:
		inner := NewGeometryCollection([]Geometry{pt("c").AsGeometry()}).ForceCoordinatesType(ct)
		vfCheckWKT(NewGeometryCollection([]Geometry{pt("a").AsGeometry(), ln("b").AsGeometry(), inner.AsGeometry(), GeometryCollection{}.ForceCoordinatesType(ct).AsGeometry()}).AsGeometry())
	default:
		vfCheckWKT(MultiPoint{}.ForceCoordinatesType(ct).AsGeometry())
		vfCheckWKT(MultiLineString{}.ForceCoordinatesType(ct).AsGeometry())
		vfCheckWKT(MultiPolygon{}.ForceCoordinatesType(ct).AsGeometry())
		vfCheckWKT(GeometryCollection{}.ForceCoordinatesType(ct).AsGeometry())
	}
	vfReach("end")
}

// Token-level re-spellings that do not touch numerals: keyword case, white
// space, bare MultiPoint members; trailing tokens are rejected.
func vfhC05Respell() {
	p := vfFiniteCoords("p", DimXY)
	q := vfFiniteCoords("q", DimXY)
	mp := NewMultiPoint([]Point{NewPoint(p), NewPoint(q)}).AsGeometry()
	x, y := appendFloat(nil, p.X), appendFloat(nil, p.Y)
	u, v := appendFloat(nil, q.X), appendFloat(nil, q.Y)
	var txt string
	switch vfInt("spelling", 0, 6) {
	case 4: // parenthesised member first, bare member second
		txt = "MULTIPOINT((" + string(x) + " " + string(y) + ")," + string(u) + " " + string(v) + ")"
	case 5: // bare member first, parenthesised member second
		txt = "MULTIPOINT(" + string(x) + " " + string(y) + ",(" + string(u) + " " + string(v) + "))"
	case 6: // the two styles in two MultiPoints of one text
		txt = "GEOMETRYCOLLECTION(MULTIPOINT((" + string(x) + " " + string(y) + ")),MULTIPOINT(" + string(u) + " " + string(v) + "))"
		mp = NewGeometryCollection([]Geometry{NewMultiPoint([]Point{NewPoint(p)}).AsGeometry(), NewMultiPoint([]Point{NewPoint(q)}).AsGeometry()}).AsGeometry()
	case 0:
		txt = "multipoint((" + string(x) + " " + string(y) + "),(" + string(u) + " " + string(v) + "))"
	case 1:
		txt = "MultiPoint ( " + string(x) + "\t" + string(y) + " ,\r\n" + string(u) + " \r " + string(v) + " )\r\n"
	case 2:
		txt = "MULTIPOINT(" + string(x) + " " + string(y) + "," + string(u) + " " + string(v) + ")"
	default:
		txt = " MULTIPOINT\n(\n(" + string(x) + " " + string(y) + ")\n,\n(" + string(u) + " " + string(v) + ")\n)\n"
	}
	g, err := UnmarshalWKT(txt, NoValidate{})
	vfAssert(err == nil, "re-spelled text parses")
	vfAssert(vfSameWKB(g, mp), "and gives the same geometry")
	_, err = UnmarshalWKT(txt+" POINT", NoValidate{})
	vfAssert(err != nil, "a trailing token is rejected")
	_, err = UnmarshalWKT(txt+")", NoValidate{})
	vfAssert(err != nil, "a trailing parenthesis is rejected")
	for _, junk := range []string{" 08", " 1e", " 0x", " 1__0", " 7", " ,"} {
		_, err = UnmarshalWKT(txt+junk, NoValidate{})
		vfAssert(err != nil, "trailing input is rejected, also when the lexer cannot even tokenise it")
	}
	vfReach("end")
}

// Numerals as text: the X ordinate of POINT(<N> 7) is a string of up to maxLen
// symbolic bytes over the alphabet 0 1 7 . e E + - ; the real lexer
// (text/scanner) and parser run on the symbolic bytes, strconv runs on each
// concrete spelling that remains. A spelling of the form
// (0|[17][017]*)(.[017]*)?([eE][+-]?[017]+)? or .[017]+([eE][+-]?[017]+)?
// (optionally after a minus sign) must parse to exactly the float64 strconv
// gives for it - or be rejected when that is infinite; whatever the bytes are,
// there is no panic and an accepted text never yields a non-finite ordinate.
func vfhC05Numerals()     { vfNumerals(4) }
func vfhC05NumeralsLong() { vfNumerals(5) }

func vfNumerals(maxLen int) {
	n := vfInt("len", 1, maxLen)
	bs := make([]byte, n)
	for k := range bs {
		b := vfByte("b")
		vfAssume(vfOr(vfOr(vfOr(b == '0', b == '1'), vfOr(b == '7', b == '.')), vfOr(vfOr(b == 'e', b == 'E'), vfOr(b == '+', b == '-'))))
		bs[k] = b
	}
	neg := false
	body := bs
	if bs[0] == '-' {
		neg = true
		body = bs[1:]
	}
	// recogniser (branches on the bytes: one path per class sequence)
	const (
		start = iota
		zero  // a single leading 0
		intp  // integer digits
		dot0  // leading '.', needs a digit
		frac  // after the point (digits optional when an integer part exists)
		exp0  // after e/E, sign or digit expected
		exp1  // after the sign, digit expected
		expd  // exponent digits
		bad
	)
	st := start
	for _, c := range body {
		digit := c == '0' || c == '1' || c == '7'
		switch st {
		case start:
			switch {
			case c == '0':
				st = zero
			case digit:
				st = intp
			case c == '.':
				st = dot0
			default:
				st = bad
			}
		case zero:
			switch {
			case c == '.':
				st = frac
			case c == 'e' || c == 'E':
				st = exp0
			default:
				st = bad // 00, 01: octal-looking spellings are left to the "no panic" clause
			}
		case intp:
			switch {
			case digit:
			case c == '.':
				st = frac
			case c == 'e' || c == 'E':
				st = exp0
			default:
				st = bad
			}
		case dot0:
			if digit {
				st = frac
			} else {
				st = bad
			}
		case frac:
			switch {
			case digit:
			case c == 'e' || c == 'E':
				st = exp0
			default:
				st = bad
			}
		case exp0:
			switch {
			case digit:
				st = expd
			case c == '+' || c == '-':
				st = exp1
			default:
				st = bad
			}
		case exp1, expd:
			if digit {
				st = expd
			} else {
				st = bad
			}
		}
	}
	wellFormed := st == zero || st == intp || st == frac || st == expd
	txt := "POINT(" + string(bs) + " 7)"
	g, err := UnmarshalWKT(txt)
	if err == nil {
		xy, ok := g.MustAsPoint().XY()
		vfAssert(g.IsPoint() && ok && vfFinite(xy.X) && (xy.Y == 7 || xy.Y == -7), "an accepted text is a point with finite ordinates (a trailing minus sign belongs to the next numeral)")
	}
	if wellFormed {
		want, perr := strconv.ParseFloat(string(body), 64)
		if perr != nil || math.IsInf(want, 0) {
			vfAssert(err != nil, "a numeral out of float64 range is rejected")
			vfReach("out-of-range")
		} else {
			vfAssert(err == nil, "a well-formed numeral (plain, fraction, exponent with or without sign) is accepted")
			if neg {
				want = -want
			}
			xy, _ := g.MustAsPoint().XY()
			vfAssert(math.Float64bits(xy.X) == math.Float64bits(want), "and denotes the float64 strconv gives for that spelling")
			vfReach("accepted")
		}
	} else if err != nil {
		vfReach("rejected")
	}
	vfReach("end")
}
