//go:build verif

package geom

func init() {
	vfHarnesses["C13_hull_shapes"] = vfhC13HullShapes
}

// ConvexHull on every concrete operand of the shape tables: every real location
// of g lies in the hull (universal over a symbolic location), the hull is
// convex with vertices in strictly counter-clockwise... (orientation-free:
// consistently turning) order, and each hull vertex is a vertex of g.
func vfhC13HullShapes() {
	all := append(append(append([][2]string{}, vfC01Shapes...), vfC02Shapes...), vfC09Extra...)
	k := vfInt("case", 0, len(all)-1)
	side := 0
	if vfBool("second") {
		side = 1
	}
	g, err := UnmarshalWKT(all[k][side])
	vfAssert(err == nil, "operand parses")
	h := g.ConvexHull()
	vfAssert(h.Validate() == nil, "the hull is valid")
	vfAssert(h.IsEmpty() == g.IsEmpty(), "empty iff g is empty")
	p := XY{vfLattice("p.x", 5), vfLattice("p.y", 5)}
	inG, _ := vfLocIn(g, p)
	inH, _ := vfLocIn(h, p)
	vfAssert(vfOr(!inG, inH), "every location of g lies in its hull")
	// hull vertices are vertices of g; consecutive triples turn the same way, never straight
	gv := map[XY]bool{}
	gs := g.DumpCoordinates()
	for i := 0; i < gs.Length(); i++ {
		gv[gs.GetXY(i)] = true
	}
	hs := h.DumpCoordinates()
	for i := 0; i < hs.Length(); i++ {
		vfAssert(gv[hs.GetXY(i)], "each hull vertex is a vertex of g")
	}
	if h.IsPolygon() {
		ring := h.MustAsPolygon().ExteriorRing().Coordinates()
		n := ring.Length() - 1
		sign := 0.0
		for i := 0; i < n; i++ {
			c := vfCross(ring.GetXY(i), ring.GetXY((i+1)%n), ring.GetXY((i+2)%n))
			vfAssert(c != 0, "no straight angle at a hull vertex")
			if sign == 0 {
				sign = c
			}
			vfAssert((c > 0) == (sign > 0), "the hull turns the same way at every vertex")
		}
		vfAssert(h.MustAsPolygon().NumInteriorRings() == 0, "no holes")
		vfReach("polygon")
	}
	// the hull of the hull is the hull
	vfAssert(ExactEquals(h.ConvexHull(), h), "idempotent")
	vfReach("end")
}
