//go:build verif

package geom

import "math"

func init() {
	vfHarnesses["C16_interpolate_hunt"] = vfhC17InterpolateHunt
	vfHarnesses["C16_densify_repeated"] = vfhC17DensifyRepeated
	vfHarnesses["C17_snap_negative_hunt"] = vfhC17SnapNegativeHunt
	vfHarnesses["C17_simplify_rings"] = vfhC17SimplifyRings
	vfHarnesses["C17_simplify"] = vfhC17Simplify
	vfHarnesses["C17_simplify_3"] = vfhC17Simplify3
	vfHarnesses["C17_densify_xy"] = vfhC17DensifyXY
	vfHarnesses["C17_densify"] = vfhC17Densify
	vfHarnesses["C17_snap_dp0"] = vfhC17SnapDP0
	vfHarnesses["C17_reverse"] = vfhC17Reverse
	vfHarnesses["C17_interpolate_hunt"] = vfhC17InterpolateHunt
	vfHarnesses["C17_snap_finite_hunt"] = vfhC17SnapFiniteHunt
	vfHarnesses["C17_densify_repeated"] = vfhC17DensifyRepeated
}

// Simplify on a LineString of 4 arbitrary finite points (distances are
// uninterpreted: every branch of Ramer-Douglas-Peucker is explored): the
// result is empty or a subsequence of the input with the same first and last
// vertex, Z/M carried bit for bit.
func vfhC17Simplify()  { vfSimplify(vfCT("ct"), 4) }
func vfhC17Simplify3() { vfSimplify(DimXYZ, 3) }

func vfSimplify(ct CoordinatesType, np int) {
	seq := vfFiniteSeq("p", np, ct)
	ls := NewLineString(seq)
	th := vfFloat64("threshold")
	vfAssume(vfAnd(vfFinite(th), th >= 0))
	out := ls.Simplify(th)
	vfAssert(out.CoordinatesType() == ct, "coordinate type kept")
	if out.IsEmpty() {
		vfReach("collapsed")
		return
	}
	vfAssert(out.Validate() == nil, "a non-empty result is valid")
	o := out.Coordinates()
	n := o.Length()
	vfAssert(n >= 2 && n <= np, "between 2 and all vertices")
	sameC := func(a, b Coordinates) bool { return vfCoordsForced(a, b, ct) }
	vfAssert(sameC(seq.Get(0), o.Get(0)), "first vertex retained with its Z/M")
	vfAssert(sameC(seq.Get(np-1), o.Get(n-1)), "last vertex retained with its Z/M")
	// subsequence: each output vertex is an input vertex at an increasing index
	j := 0
	for i := 0; i < n; i++ {
		found := false
		for ; j < np; j++ {
			if sameC(seq.Get(j), o.Get(i)) {
				found = true
				j++
				break
			}
		}
		vfAssert(found, "output is a subsequence of the input")
	}
	vfReach("end")
}

// Densify on a 2-point line: original vertices first and last, bit-identical
// incl. Z/M; as many vertices as the subdivision count says.
func vfhC17Densify()   { vfDensify(vfCT("ct")) }
func vfhC17DensifyXY() { vfDensify(DimXYM) }

func vfDensify(ct CoordinatesType) {
	seq := vfFiniteSeq("p", 2, ct)
	ls := NewLineString(seq)
	d := vfFloat64("d")
	vfAssume(vfAnd(vfFinite(d), d > 0))
	c0, c1 := seq.Get(0), seq.Get(1)
	sub := int(math.Ceil(c0.XY.distanceTo(c1.XY) / d))
	vfAssume(sub <= 3)
	out := ls.Densify(d).Coordinates()
	want := 2
	if sub > 1 {
		want = sub + 1
	}
	vfAssert(out.Length() == want, "number of vertices follows the subdivision count")
	vfAssert(out.CoordinatesType() == ct, "coordinate type kept")
	vfAssert(vfCoordsForced(c0, out.Get(0), ct), "first original vertex kept bit for bit")
	vfAssert(vfCoordsForced(c1, out.Get(out.Length()-1), ct), "last original vertex kept bit for bit")
	vfReach("end")
}

// SnapToGrid with 0 decimal places is math.Round: odd, finite, idempotent.
func vfhC17SnapDP0() {
	x := vfFloat64("x")
	vfAssume(vfFinite(x))
	p := NewPoint(Coordinates{XY: XY{x, -x}, Type: DimXY}).SnapToGrid(0)
	c, ok := p.Coordinates()
	vfAssert(ok, "non-empty")
	vfAssert(vfFinite(c.X), "finite result")
	vfAssert(c.Y == -c.X, "odd: snap(-x) = -snap(x)")
	vfAssert(c.X-x <= 0.5 && x-c.X <= 0.5, "moves by at most half a grid step")
	q := p.SnapToGrid(0)
	c2, _ := q.Coordinates()
	vfAssert(c2.X == c.X && c2.Y == c.Y, "idempotent")
	vfReach("end")
}

// Reverse is an involution that keeps every vertex (with its Z/M).
func vfhC17Reverse() {
	ct := vfCT("ct")
	seq := vfSeqF("p", 3, ct)
	ls := NewLineString(seq)
	r := ls.Reverse()
	for i := 0; i < 3; i++ {
		vfAssert(vfCoordsForced(seq.Get(i), r.Coordinates().Get(2-i), ct), "vertex i moves to n-1-i with its Z/M")
	}
	vfAssert(vfSameSeqBits(r.Reverse().Coordinates(), seq), "involution")
	poly := NewPolygon([]LineString{NewLineString(vfSeqF("q", 4, ct))})
	vfAssert(vfSameSeqBits(poly.Reverse().Reverse().ExteriorRing().Coordinates(), poly.ExteriorRing().Coordinates()), "Polygon.Reverse is an involution")
	vfReach("end")
}

// Densify keeps every original vertex in order, also across a repeated
// (zero-length) segment: LINESTRING Z(1 2 z0, 1 2 z1, 4 6 z2) with any d >= 5.
func vfhC17DensifyRepeated() {
	z0, z1, z2 := vfFloat64("z0"), vfFloat64("z1"), vfFloat64("z2")
	d := vfFloat64("d")
	vfAssume(vfAnd(vfFinite(d), d >= 5))
	var fs []float64
	switch vfInt("repeat-at", 0, 2) {
	case 0:
		fs = []float64{1, 2, z0, 1, 2, z1, 4, 6, z2}
	case 1:
		fs = []float64{1, 2, z0, 4, 6, z1, 4, 6, z2}
	default:
		fs = []float64{1, 2, z0, 4, 6, z1, 1, 2, z2}
	}
	in := NewSequence(fs, DimXYZ)
	out := NewLineString(in).Densify(d).Coordinates()
	vfAssert(out.Length() == 3, "no vertex is added (d is at least the segment length) and none is lost")
	vfAssert(vfSameSeqBits(out, in), "every original vertex, in order, with its Z")
	vfReach("end")
}

// Hunt (precise float64 multiplication and division): SnapToGrid never turns a
// finite ordinate into a non-finite one, at the extreme decimal places where
// the scale factor or the scaled value overflow or underflow.
func vfhC17SnapFiniteHunt() {
	x := vfFloat64("x")
	vfAssume(vfFinite(x))
	dps := []int{300, 308, 309, 320, -300, -308, -320}
	dp := dps[vfInt("dp", 0, len(dps)-1)]
	p := NewPoint(Coordinates{XY: XY{x, 0}, Type: DimXY}).SnapToGrid(dp)
	c, ok := p.Coordinates()
	vfAssert(ok, "non-empty")
	vfAssert(vfFinite(c.X), "SnapToGrid of a finite ordinate is finite")
	vfReach("end")
}

// Hunt (precise float64 arithmetic): InterpolatePoint(f), for every float64 f
// except NaN (infinities and out-of-range fractions included), on lines along the diagonal
// x=y from (1,1) to (3,3) with a repeated vertex at the start, in the middle or
// at the end, is a finite point of the line.
func vfhC17InterpolateHunt() {
	f := vfFloat64("f")
	vfAssume(f == f) // NaN fractions are outside the property (they panic: noted in DESIGN 12.3)
	var ls LineString
	switch vfInt("shape", 0, 3) {
	case 0:
		ls = NewLineStringXY(1, 1, 1, 1, 3, 3)
	case 1:
		ls = NewLineStringXY(1, 1, 2, 2, 2, 2, 3, 3)
	case 2:
		ls = NewLineStringXY(1, 1, 3, 3, 3, 3)
	default:
		ls = NewLineStringXY(1, 1, 2, 2, 3, 3)
	}
	p := ls.InterpolatePoint(f)
	xy, ok := p.XY()
	vfAssert(ok, "non-empty")
	vfAssert(vfAnd(vfFinite(xy.X), vfFinite(xy.Y)), "the interpolated point is finite")
	vfAssert(vfAnd(xy.X == xy.Y, vfAnd(xy.X >= 1, xy.X <= 3)), "and lies on the line")
	if f <= 0 {
		vfAssert(xy.X == 1, "fractions <= 0 give the start point")
	}
	if f >= 1 {
		vfAssert(xy.X == 3, "fractions >= 1 give the end point")
	}
	// the same line with Z and M (constant 5 and 9): the interpolated point keeps the coordinate type
	zm := ls.ForceCoordinatesType(DimXYZM)
	zm = zm.TransformXY(func(v XY) XY { return v }) // (a copy)
	seq := zm.Coordinates()
	fs := make([]float64, 0, 4*seq.Length())
	for i := 0; i < seq.Length(); i++ {
		c := seq.Get(i)
		fs = append(fs, c.X, c.Y, 5, 9)
	}
	pz := NewLineString(NewSequence(fs, DimXYZM)).InterpolatePoint(f)
	cz, okz := pz.Coordinates()
	vfAssert(okz && pz.CoordinatesType() == DimXYZM, "interpolating a ZM line gives a ZM point")
	vfAssert(vfAnd(cz.Z == 5, cz.M == 9), "with the line's (constant) Z and M")
	vfReach("end")
}

// Polygon.Simplify / MultiPolygon.Simplify are the ring-wise simplification:
// concrete rings (three holes of different sizes in a symbolic order; a member
// with a deep notch next to a member sitting in the notch), symbolic threshold.
// The result has the simplified shell and exactly the simplified holes that did
// not collapse, in order; a MultiPolygon result is the valid collection of the
// members' results or an error.
func vfhC17SimplifyRings() {
	th := vfLattice("t", 6) / 4
	vfAssume(th >= 0)
	shell := NewLineStringXY(0, 0, 10, 0, 20, 0, 20, 20, 0, 20, 0, 0)
	holes := []LineString{
		NewLineStringXY(1, 1, 1.5, 1, 1.5, 1.5, 1, 1.5, 1, 1),         // 0.5 x 0.5
		NewLineStringXY(5, 5, 15, 5, 15, 15, 5, 15, 5, 5),             // 10 x 10
		NewLineStringXY(16, 1, 19, 1, 19, 3, 17.5, 3.2, 16, 3, 16, 1), // 3 x 2 with a bump
	}
	var order [3]int
	switch vfInt("order", 0, 5) {
	case 0:
		order = [3]int{0, 1, 2}
	case 1:
		order = [3]int{0, 2, 1}
	case 2:
		order = [3]int{1, 0, 2}
	case 3:
		order = [3]int{1, 2, 0}
	case 4:
		order = [3]int{2, 0, 1}
	default:
		order = [3]int{2, 1, 0}
	}
	rings := []LineString{shell}
	for _, k := range order {
		rings = append(rings, holes[k])
	}
	poly := NewPolygon(rings)
	got, err := poly.Simplify(th)
	vfAssert(err == nil, "simplifying this polygon never invalidates it")
	want := []LineString{shell.Simplify(th)}
	for _, k := range order {
		if h := holes[k].Simplify(th); h.Coordinates().Length() >= 4 {
			want = append(want, h)
		}
	}
	if want[0].Coordinates().Length() < 4 {
		vfAssert(got.IsEmpty(), "a collapsed shell gives the empty polygon")
		vfReach("shell-collapsed")
		want = nil
	} else {
		vfAssert(got.NumInteriorRings()+1 == len(want), "exactly the holes that do not collapse are kept")
	}
	gr := got.DumpRings()
	for i := range want {
		if i < len(gr) {
			vfAssert(ExactEquals(gr[i].AsGeometry(), want[i].AsGeometry()), "each kept ring is its own simplification, in order")
		}
	}
	vfObserveInt("kept-holes", int64(got.NumInteriorRings()))

	// MultiPolygon: the notch vertex (50,92) goes away for t >= 8 and the simplified
	// first member then swallows the second one
	notched := NewPolygon([]LineString{NewLineStringXY(0, 0, 100, 0, 100, 100, 70, 100, 50, 92, 30, 100, 0, 100, 0, 0)})
	inNotch := NewPolygon([]LineString{NewLineStringXY(50, 94, 62, 99, 38, 99, 50, 94)})
	members := []Polygon{notched, inNotch}
	if vfBool("swap") {
		members = []Polygon{inNotch, notched}
	}
	mp := NewMultiPolygon(members)
	vfAssert(mp.Validate() == nil, "the input MultiPolygon is valid")
	var exp []Polygon
	for _, m := range members {
		s, err := m.Simplify(th)
		vfAssert(err == nil, "each member stays valid on its own")
		if !s.IsEmpty() {
			exp = append(exp, s)
		}
	}
	expMP := NewMultiPolygon(exp)
	gotMP, err := mp.Simplify(th)
	if expMP.Validate() != nil {
		vfAssert(err != nil, "members that collide after simplification are reported, not returned")
		vfReach("collide")
	} else {
		vfAssert(err == nil && ExactEquals(gotMP.AsGeometry(), expMP.AsGeometry()), "the MultiPolygon of the members' simplifications")
		vfAssert(gotMP.Validate() == nil, "a returned MultiPolygon is valid")
		vfReach("valid")
	}
	vfReach("end")
}

// Hunt (precise float64 division, rounding and multiplication): SnapToGrid at
// negative decimal places on integer ordinates: the result is a multiple of the
// grid step, at most half a step away, and the operation is odd.
func vfhC17SnapNegativeHunt() {
	n := vfInt("n", -2000, 2000)
	x := float64(n)
	var step float64
	var dp int
	if vfBool("hundreds") {
		dp, step = -2, 100
	} else {
		dp, step = -1, 10
	}
	get := func(v float64) float64 {
		xy, ok := NewPointXY(v, 0).SnapToGrid(dp).XY()
		vfAssert(ok, "non-empty")
		return xy.X
	}
	got := get(x)
	d := got - x
	vfAssert(d <= step/2 && d >= -step/2, "no ordinate moves by more than half a grid step")
	q := got / step
	vfAssert(q == math.Round(q), "the result is a multiple of the grid step")
	vfAssert(get(-x) == -got, "odd: snap(-x) = -snap(x)")
	vfAssert(get(got) == got, "idempotent")
	vfReach("end")
}
