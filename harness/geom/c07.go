//go:build verif

package geom

import (
	"encoding/binary"
	"math"
)

func init() {
	vfHarnesses["C07_varint"] = vfhC07Varint
	vfHarnesses["C07_uvarint"] = vfhC07Uvarint
	vfHarnesses["C07_zigzag"] = vfhC07ZigZag
	vfHarnesses["C07_linestring"] = vfhC07LineString
	vfHarnesses["C07_point"] = vfhC07Point
	vfHarnesses["C07_multipoint_empty_member"] = vfhC07MultiPointEmptyMember
}

// Lemma: the signed varint layer used by the writer (binary.PutVarint) and
// the parser (parseSignedVarint) is the identity for every int64.
func vfhC07Varint() {
	v := vfInt64("v")
	var buf [binary.MaxVarintLen64]byte
	n := binary.PutVarint(buf[:], v)
	p := newTWKBParser(buf[:n])
	got, err := p.parseSignedVarint()
	vfAssert(err == nil, "no error")
	vfAssert(got == v, "round trip")
	vfAssert(p.pos == n, "consumed exactly the bytes written")
	vfReach("end")
}

func vfhC07Uvarint() {
	v := vfUint64("v")
	var buf [binary.MaxVarintLen64]byte
	n := binary.PutUvarint(buf[:], v)
	p := newTWKBParser(buf[:n])
	got, err := p.parseUnsignedVarint()
	vfAssert(err == nil, "no error")
	vfAssert(got == v, "round trip")
	vfAssert(p.pos == n, "consumed exactly the bytes written")
	vfReach("end")
}

func vfhC07ZigZag() {
	v := vfInt64("v")
	vfAssert(decodeZigZagInt64(encodeZigZagInt64(v)) == v, "decode(encode(v)) = v")
	u := vfUint64("u")
	vfAssert(encodeZigZagInt64(decodeZigZagInt64(u)) == u, "encode(decode(u)) = u")
	vfReach("end")
}

// vfTWKBExpected is what the format can carry of f at the given precision:
// the scaled, rounded integer, scaled back.
func vfTWKBExpected(f float64, prec int) float64 {
	scale := math.Pow10(prec)
	return float64(int64(math.Round(f*scale))) / scale
}

func vfOpts(sizeHdr, bbox, closeRings bool, precZ, precM int, ids []int64) []TWKBWriterOption {
	var opts []TWKBWriterOption
	opts = append(opts, TWKBPrecisionZ(precZ), TWKBPrecisionM(precM))
	if sizeHdr {
		opts = append(opts, TWKBSizeHeader())
	}
	if bbox {
		opts = append(opts, TWKBBoundingBoxHeader())
	}
	if closeRings {
		opts = append(opts, TWKBCloseRings())
	}
	if ids != nil {
		opts = append(opts, TWKBIDList(ids))
	}
	return opts
}

// vfBoundedOrd: an ordinate with |f| < 2^40 (the property's domain).
func vfBoundedOrd(name string) float64 {
	f := vfFloat64(name)
	vfAssume(f > -1099511627776.0 && f < 1099511627776.0)
	return f
}

// vfSmallScaled additionally assumes that the scaled integer of f at the given
// precision is small (|k| < 2^5: every delta fits a one-byte varint), which removes the varint length forks of the
// structural harnesses. (The varint layer itself is covered for all int64 by
// C07_varint.)
func vfSmallScaled(f float64, prec int) {
	k := int64(math.Round(f * math.Pow10(prec)))
	vfAssume(k > -32 && k < 32)
}

var vfPrecLo, vfPrecHi, vfPrecZMHi = -8, 7, 7

// C07: Point round trip; every coordinate type, precision, header options.
func vfhC07Point() {
	ct := vfCT("ct")
	precXY := vfInt("precXY", vfPrecLo, vfPrecHi)
	precZ := vfInt("precZ", 0, vfPrecZMHi)
	precM := vfInt("precM", 0, vfPrecZMHi)
	c := Coordinates{Type: ct}
	c.X, c.Y = vfBoundedOrd("x"), vfBoundedOrd("y")
	vfSmallScaled(c.X, precXY)
	vfSmallScaled(c.Y, precXY)
	if ct.Is3D() {
		c.Z = vfBoundedOrd("z")
		vfSmallScaled(c.Z, precZ)
	}
	if ct.IsMeasured() {
		c.M = vfBoundedOrd("m")
		vfSmallScaled(c.M, precM)
	}
	sizeHdr, bbox := vfBool("size"), vfBool("bbox")
	g := NewPoint(c).AsGeometry()
	twkb, err := MarshalTWKB(g, precXY, vfOpts(sizeHdr, bbox, false, precZ, precM, nil)...)
	vfAssert(err == nil, "marshal succeeds")
	g2, err := UnmarshalTWKB(twkb, NoValidate{})
	vfAssert(err == nil, "unmarshal succeeds")
	vfAssert(g2.IsPoint(), "type")
	vfAssert(g2.CoordinatesType() == ct, "coordinate type")
	c2, ok := g2.MustAsPoint().Coordinates()
	vfAssert(ok, "non-empty")
	vfAssert(vfEqF(c2.X, vfTWKBExpected(c.X, precXY)), "x")
	vfAssert(vfEqF(c2.Y, vfTWKBExpected(c.Y, precXY)), "y")
	if ct.Is3D() {
		vfAssert(vfEqF(c2.Z, vfTWKBExpected(c.Z, precZ)), "z")
	}
	if ct.IsMeasured() {
		vfAssert(vfEqF(c2.M, vfTWKBExpected(c.M, precM)), "m")
	}
	sz, hasSz, err := UnmarshalTWKBSize(twkb)
	vfAssert(err == nil && hasSz == sizeHdr, "size header presence")
	if sizeHdr {
		vfAssert(sz == len(twkb), "size header tells the truth")
		vfReach("size")
	}
	env, hasBBox, err := UnmarshalTWKBEnvelope(twkb)
	vfAssert(err == nil && hasBBox == bbox, "bbox header presence")
	if bbox {
		mn, mx, ok := env.XYEnvelope.MinMaxXYs()
		vfAssert(ok, "bbox not empty")
		vfAssert(vfEqF(mn.X, c2.X) && vfEqF(mx.X, c2.X) && vfEqF(mn.Y, c2.Y) && vfEqF(mx.Y, c2.Y), "bbox of a point is the decoded point")
		vfReach("bbox")
	}
	vfReach("end")
}

var vfLineCTHi = 0

// C07: LineString of 2 points.
func vfhC07LineString() {
	ct := CoordinatesType(vfInt("ct", 0, vfLineCTHi))
	precXY := vfInt("precXY", -8, 7)
	precZM := vfInt("precZM", 0, 7)
	dim := ct.Dimension()
	const n = 2
	fs := make([]float64, 0, n*dim)
	for i := 0; i < n*dim; i++ {
		fs = append(fs, vfBoundedOrd("o"))
	}
	ls := NewLineString(NewSequence(fs, ct))
	for i := 0; i < n; i++ {
		vfSmallScaled(fs[i*dim], precXY)
		vfSmallScaled(fs[i*dim+1], precXY)
		for d := 2; d < dim; d++ {
			vfSmallScaled(fs[i*dim+d], precZM)
		}
	}
	sizeHdr, bbox := vfBool("size"), vfBool("bbox")
	twkb, err := MarshalTWKB(ls.AsGeometry(), precXY, vfOpts(sizeHdr, bbox, false, precZM, precZM, nil)...)
	vfAssert(err == nil, "marshal succeeds")
	g2, err := UnmarshalTWKB(twkb, NoValidate{})
	vfAssert(err == nil, "unmarshal succeeds")
	vfAssert(g2.IsLineString(), "type")
	vfAssert(g2.CoordinatesType() == ct, "coordinate type")
	seq := g2.MustAsLineString().Coordinates()
	vfAssert(seq.Length() == n, "number of points")
	for i := 0; i < n; i++ {
		c := seq.Get(i)
		vfAssert(vfEqF(c.X, vfTWKBExpected(fs[i*dim], precXY)), "x")
		vfAssert(vfEqF(c.Y, vfTWKBExpected(fs[i*dim+1], precXY)), "y")
		if ct == DimXYZ || ct == DimXYZM {
			vfAssert(vfEqF(c.Z, vfTWKBExpected(fs[i*dim+2], precZM)), "z")
		}
		if ct == DimXYM {
			vfAssert(vfEqF(c.M, vfTWKBExpected(fs[i*dim+2], precZM)), "m")
		}
		if ct == DimXYZM {
			vfAssert(vfEqF(c.M, vfTWKBExpected(fs[i*dim+3], precZM)), "m")
		}
	}
	sz, hasSz, err := UnmarshalTWKBSize(twkb)
	vfAssert(err == nil && hasSz == sizeHdr, "size header presence")
	if sizeHdr {
		vfAssert(sz == len(twkb), "size header tells the truth")
		vfReach("size")
	}
	vfReach("end")
}

// C07 (finding F4): an empty Point inside a non-empty MultiPoint must be
// dropped or refused, never turned into coordinates.
func vfhC07MultiPointEmptyMember() {
	ct := vfCT("ct")
	c := Coordinates{Type: ct}
	c.X, c.Y = vfBoundedOrd("x"), vfBoundedOrd("y")
	vfSmallScaled(c.X, 0)
	vfSmallScaled(c.Y, 0)
	pts := []Point{NewPoint(c), NewEmptyPoint(ct)}
	if vfBool("empty-first") {
		pts[0], pts[1] = pts[1], pts[0]
	}
	mp := NewMultiPoint(pts)
	twkb, err := MarshalTWKB(mp.AsGeometry(), 0)
	if err != nil {
		vfReach("refused")
		return
	}
	g2, err := UnmarshalTWKB(twkb, NoValidate{})
	vfAssert(err == nil, "unmarshal succeeds")
	vfAssert(g2.IsMultiPoint(), "type")
	mp2 := g2.MustAsMultiPoint()
	n := mp2.NumPoints()
	full := 0
	for i := 0; i < n; i++ {
		if !mp2.PointN(i).IsEmpty() {
			full++
		}
	}
	vfAssert(full == 1, "exactly the one non-empty point comes back as coordinates")
	vfReach("end")
}
