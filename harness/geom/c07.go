//go:build verif

package geom

import (
	"encoding/binary"
	"math"
)

func init() {
	vfHarnesses["C07_polygon_options"] = vfhC07PolygonOptions
	vfHarnesses["C08_twkb_polygon_options"] = vfhC07PolygonOptions
	vfHarnesses["C07_collection_line_x"] = vfhC07CollectionLineX
	vfHarnesses["C07_varint"] = vfhC07Varint
	vfHarnesses["C07_uvarint"] = vfhC07Uvarint
	vfHarnesses["C07_zigzag"] = vfhC07ZigZag
	vfHarnesses["C07_linestring"] = vfhC07LineString
	vfHarnesses["C07_point"] = vfhC07Point
	vfHarnesses["C07_multipoint_empty_member"] = vfhC07MultiPointEmptyMember
	vfHarnesses["C07_collection"] = vfhC07Collection
	vfHarnesses["C07_collection_full"] = vfhC07CollectionFull
	vfHarnesses["C07_collection_line"] = vfhC07CollectionLine
	vfHarnesses["C07_collection_empty_order"] = vfhC07CollectionEmptyOrder
	vfHarnesses["C07_multipolygon_empty_member"] = vfhC07MultiPolygonEmptyMember
}

// Lemma: the signed varint layer used by the writer (binary.PutVarint) and
// the parser (parseSignedVarint) is the identity for every int64.
func vfhC07Varint() {
	v := vfInt64("v")
	var buf [binary.MaxVarintLen64]byte
	n := binary.PutVarint(buf[:], v)
	p := newTWKBParser(buf[:n])
	got, err := p.parseSignedVarint()
	vfAssert(err == nil, "no error")
	vfAssert(got == v, "round trip")
	vfAssert(p.pos == n, "consumed exactly the bytes written")
	vfReach("end")
}

func vfhC07Uvarint() {
	v := vfUint64("v")
	var buf [binary.MaxVarintLen64]byte
	n := binary.PutUvarint(buf[:], v)
	p := newTWKBParser(buf[:n])
	got, err := p.parseUnsignedVarint()
	vfAssert(err == nil, "no error")
	vfAssert(got == v, "round trip")
	vfAssert(p.pos == n, "consumed exactly the bytes written")
	vfReach("end")
}

func vfhC07ZigZag() {
	v := vfInt64("v")
	vfAssert(decodeZigZagInt64(encodeZigZagInt64(v)) == v, "decode(encode(v)) = v")
	u := vfUint64("u")
	vfAssert(encodeZigZagInt64(decodeZigZagInt64(u)) == u, "encode(decode(u)) = u")
	vfReach("end")
}

// vfTWKBExpected is what the format can carry of f at the given precision:
// the scaled, rounded integer, scaled back.
func vfTWKBExpected(f float64, prec int) float64 {
	scale := math.Pow10(prec)
	return float64(int64(math.Round(f*scale))) / scale
}

func vfOpts(sizeHdr, bbox, closeRings bool, precZ, precM int, ids []int64) []TWKBWriterOption {
	var opts []TWKBWriterOption
	opts = append(opts, TWKBPrecisionZ(precZ), TWKBPrecisionM(precM))
	if sizeHdr {
		opts = append(opts, TWKBSizeHeader())
	}
	if bbox {
		opts = append(opts, TWKBBoundingBoxHeader())
	}
	if closeRings {
		opts = append(opts, TWKBCloseRings())
	}
	if ids != nil {
		opts = append(opts, TWKBIDList(ids))
	}
	return opts
}

// vfBoundedOrd: an ordinate with |f| < 2^40 (the property's domain).
func vfBoundedOrd(name string) float64 {
	f := vfFloat64(name)
	vfAssume(f > -1099511627776.0 && f < 1099511627776.0)
	return f
}

// vfSmallScaled additionally assumes that the scaled integer of f at the given
// precision is small (|k| < 2^5: every delta fits a one-byte varint), which removes the varint length forks of the
// structural harnesses. (The varint layer itself is covered for all int64 by
// C07_varint.)
func vfSmallScaled(f float64, prec int) {
	k := int64(math.Round(f * math.Pow10(prec)))
	vfAssume(k > -32 && k < 32)
}

var vfPrecLo, vfPrecHi, vfPrecZMHi = -8, 7, 7

// C07: Point round trip; every coordinate type, precision, header options.
func vfhC07Point() {
	ct := vfCT("ct")
	precXY := vfInt("precXY", vfPrecLo, vfPrecHi)
	precZ := vfInt("precZ", 0, vfPrecZMHi)
	precM := vfInt("precM", 0, vfPrecZMHi)
	c := Coordinates{Type: ct}
	c.X, c.Y = vfBoundedOrd("x"), vfBoundedOrd("y")
	vfSmallScaled(c.X, precXY)
	vfSmallScaled(c.Y, precXY)
	if ct.Is3D() {
		c.Z = vfBoundedOrd("z")
		vfSmallScaled(c.Z, precZ)
	}
	if ct.IsMeasured() {
		c.M = vfBoundedOrd("m")
		vfSmallScaled(c.M, precM)
	}
	sizeHdr, bbox := vfBool("size"), vfBool("bbox")
	g := NewPoint(c).AsGeometry()
	twkb, err := MarshalTWKB(g, precXY, vfOpts(sizeHdr, bbox, false, precZ, precM, nil)...)
	vfAssert(err == nil, "marshal succeeds")
	g2, err := UnmarshalTWKB(twkb, NoValidate{})
	vfAssert(err == nil, "unmarshal succeeds")
	vfAssert(g2.IsPoint(), "type")
	vfAssert(g2.CoordinatesType() == ct, "coordinate type")
	c2, ok := g2.MustAsPoint().Coordinates()
	vfAssert(ok, "non-empty")
	vfAssert(vfEqF(c2.X, vfTWKBExpected(c.X, precXY)), "x")
	vfAssert(vfEqF(c2.Y, vfTWKBExpected(c.Y, precXY)), "y")
	if ct.Is3D() {
		vfAssert(vfEqF(c2.Z, vfTWKBExpected(c.Z, precZ)), "z")
	}
	if ct.IsMeasured() {
		vfAssert(vfEqF(c2.M, vfTWKBExpected(c.M, precM)), "m")
	}
	sz, hasSz, err := UnmarshalTWKBSize(twkb)
	vfAssert(err == nil && hasSz == sizeHdr, "size header presence")
	if sizeHdr {
		vfAssert(sz == len(twkb), "size header tells the truth")
		vfReach("size")
	}
	env, hasBBox, err := UnmarshalTWKBEnvelope(twkb)
	vfAssert(err == nil && hasBBox == bbox, "bbox header presence")
	if bbox {
		mn, mx, ok := env.XYEnvelope.MinMaxXYs()
		vfAssert(ok, "bbox not empty")
		vfAssert(vfEqF(mn.X, c2.X) && vfEqF(mx.X, c2.X) && vfEqF(mn.Y, c2.Y) && vfEqF(mx.Y, c2.Y), "bbox of a point is the decoded point")
		vfReach("bbox")
	}
	vfReach("end")
}

var vfLineCTHi = 0

// C07: LineString of 2 points.
func vfhC07LineString() {
	ct := CoordinatesType(vfInt("ct", 0, vfLineCTHi))
	precXY := vfInt("precXY", -8, 7)
	precZM := vfInt("precZM", 0, 7)
	dim := ct.Dimension()
	const n = 2
	fs := make([]float64, 0, n*dim)
	for i := 0; i < n*dim; i++ {
		fs = append(fs, vfBoundedOrd("o"))
	}
	ls := NewLineString(NewSequence(fs, ct))
	for i := 0; i < n; i++ {
		vfSmallScaled(fs[i*dim], precXY)
		vfSmallScaled(fs[i*dim+1], precXY)
		for d := 2; d < dim; d++ {
			vfSmallScaled(fs[i*dim+d], precZM)
		}
	}
	sizeHdr, bbox := vfBool("size"), vfBool("bbox")
	twkb, err := MarshalTWKB(ls.AsGeometry(), precXY, vfOpts(sizeHdr, bbox, false, precZM, precZM, nil)...)
	vfAssert(err == nil, "marshal succeeds")
	g2, err := UnmarshalTWKB(twkb, NoValidate{})
	vfAssert(err == nil, "unmarshal succeeds")
	vfAssert(g2.IsLineString(), "type")
	vfAssert(g2.CoordinatesType() == ct, "coordinate type")
	seq := g2.MustAsLineString().Coordinates()
	vfAssert(seq.Length() == n, "number of points")
	for i := 0; i < n; i++ {
		c := seq.Get(i)
		vfAssert(vfEqF(c.X, vfTWKBExpected(fs[i*dim], precXY)), "x")
		vfAssert(vfEqF(c.Y, vfTWKBExpected(fs[i*dim+1], precXY)), "y")
		if ct == DimXYZ || ct == DimXYZM {
			vfAssert(vfEqF(c.Z, vfTWKBExpected(fs[i*dim+2], precZM)), "z")
		}
		if ct == DimXYM {
			vfAssert(vfEqF(c.M, vfTWKBExpected(fs[i*dim+2], precZM)), "m")
		}
		if ct == DimXYZM {
			vfAssert(vfEqF(c.M, vfTWKBExpected(fs[i*dim+3], precZM)), "m")
		}
	}
	sz, hasSz, err := UnmarshalTWKBSize(twkb)
	vfAssert(err == nil && hasSz == sizeHdr, "size header presence")
	if sizeHdr {
		vfAssert(sz == len(twkb), "size header tells the truth")
		vfReach("size")
	}
	vfReach("end")
}

// C07 (finding F4): an empty Point inside a non-empty MultiPoint must be
// dropped or refused, never turned into coordinates.
func vfhC07MultiPointEmptyMember() {
	ct := vfCT("ct")
	c := Coordinates{Type: ct}
	c.X, c.Y = vfBoundedOrd("x"), vfBoundedOrd("y")
	vfSmallScaled(c.X, 0)
	vfSmallScaled(c.Y, 0)
	pts := []Point{NewPoint(c), NewEmptyPoint(ct)}
	if vfBool("empty-first") {
		pts[0], pts[1] = pts[1], pts[0]
	}
	mp := NewMultiPoint(pts)
	twkb, err := MarshalTWKB(mp.AsGeometry(), 0)
	if err != nil {
		vfReach("refused")
		return
	}
	g2, err := UnmarshalTWKB(twkb, NoValidate{})
	vfAssert(err == nil, "unmarshal succeeds")
	vfAssert(g2.IsMultiPoint(), "type")
	mp2 := g2.MustAsMultiPoint()
	n := mp2.NumPoints()
	full := 0
	for i := 0; i < n; i++ {
		if !mp2.PointN(i).IsEmpty() {
			full++
		}
	}
	vfAssert(full == 1, "exactly the one non-empty point comes back as coordinates")
	vfReach("end")
}

func vfSmallCoords(name string, ct CoordinatesType, precXY, precZ, precM int) Coordinates {
	c := Coordinates{Type: ct}
	c.X, c.Y = vfBoundedOrd(name+".x"), vfBoundedOrd(name+".y")
	vfSmallScaled(c.X, precXY)
	vfSmallScaled(c.Y, precXY)
	if ct.Is3D() {
		c.Z = vfBoundedOrd(name + ".z")
		vfSmallScaled(c.Z, precZ)
	}
	if ct.IsMeasured() {
		c.M = vfBoundedOrd(name + ".m")
		vfSmallScaled(c.M, precM)
	}
	return c
}

func vfExpectCoords(c Coordinates, precXY, precZ, precM int) Coordinates {
	e := Coordinates{Type: c.Type}
	e.X, e.Y = vfTWKBExpected(c.X, precXY), vfTWKBExpected(c.Y, precXY)
	if c.Type.Is3D() {
		e.Z = vfTWKBExpected(c.Z, precZ)
	}
	if c.Type.IsMeasured() {
		e.M = vfTWKBExpected(c.M, precM)
	}
	return e
}

func vfEqCoordsF(a, b Coordinates) bool {
	eq := vfAnd(a.Type == b.Type, vfAnd(vfEqF(a.X, b.X), vfEqF(a.Y, b.Y)))
	if a.Type.Is3D() {
		eq = vfAnd(eq, vfEqF(a.Z, b.Z))
	}
	if a.Type.IsMeasured() {
		eq = vfAnd(eq, vfEqF(a.M, b.M))
	}
	return eq
}

// C07: GeometryCollection(Point, Point-or-empty): sub-writers per member,
// precisions for Z and M independent, bbox and size headers.
func vfhC07Collection()     { vfCollection(0, 1, false) }
func vfhC07CollectionFull() { vfCollection(1, 2, true) }

func vfCollection(precXYHi, precZMHi int, withSize bool) {
	ct := vfCT("ct")

	precXY := vfInt("precXY", 0, precXYHi)
	precZ := vfInt("precZ", 0, precZMHi)
	precM := vfInt("precM", 0, precZMHi)
	c1 := vfSmallCoords("a", ct, precXY, precZ, precM)
	secondEmpty := true
	if withSize {
		// thorough tier: the second member may be a full Point as well
		secondEmpty = vfBool("second-empty")
	}
	var c2 Coordinates
	members := []Geometry{NewPoint(c1).AsGeometry()}
	if secondEmpty {
		members = append(members, NewEmptyPoint(ct).AsGeometry())
	} else {
		c2 = vfSmallCoords("b", ct, precXY, precZ, precM)
		members = append(members, NewPoint(c2).AsGeometry())
	}
	gc := NewGeometryCollection(members).AsGeometry()
	sizeHdr, bbox := false, vfBool("bbox")
	if withSize {
		sizeHdr = vfBool("size")
	}
	twkb, err := MarshalTWKB(gc, precXY, vfOpts(sizeHdr, bbox, false, precZ, precM, nil)...)
	vfAssert(err == nil, "marshal succeeds")
	g2, err := UnmarshalTWKB(twkb, NoValidate{})
	vfAssert(err == nil, "unmarshal succeeds")
	vfAssert(g2.IsGeometryCollection(), "type")
	vfAssert(g2.CoordinatesType() == ct, "coordinate type survives (the collection contains an ordinate)")
	out := g2.MustAsGeometryCollection()
	vfAssert(out.NumGeometries() == 2, "member count")
	vfAssert(out.GeometryN(0).IsPoint() && out.GeometryN(1).IsPoint(), "member types")
	d1, ok1 := out.GeometryN(0).MustAsPoint().Coordinates()
	vfAssert(ok1, "first member non-empty")
	e1 := vfExpectCoords(c1, precXY, precZ, precM)
	vfAssert(vfEqCoordsF(d1, e1), "first member: every ordinate at its own precision")
	d2, ok2 := out.GeometryN(1).MustAsPoint().Coordinates()
	vfAssert(ok2 == !secondEmpty, "emptiness of the second member")
	e2 := e1
	if !secondEmpty {
		e2 = vfExpectCoords(c2, precXY, precZ, precM)
		vfAssert(vfEqCoordsF(d2, e2), "second member: every ordinate at its own precision (no reference point leak)")
	}
	sz, hasSz, err := UnmarshalTWKBSize(twkb)
	vfAssert(err == nil && hasSz == sizeHdr, "size header presence")
	if sizeHdr {
		vfAssert(sz == len(twkb), "size header tells the truth")
		vfReach("size")
	}
	env, hasBBox, err := UnmarshalTWKBEnvelope(twkb)
	vfAssert(err == nil && hasBBox == bbox, "bbox header presence")
	if bbox {
		mn, mx, ok := env.XYEnvelope.MinMaxXYs()
		vfAssert(ok, "bbox not empty")
		loX, hiX, loY, hiY := e1.X, e1.X, e1.Y, e1.Y
		if !secondEmpty {
			loX, hiX = vfMinF(e1.X, e2.X), vfMaxF(e1.X, e2.X)
			loY, hiY = vfMinF(e1.Y, e2.Y), vfMaxF(e1.Y, e2.Y)
		}
		vfAssert(vfAnd(vfAnd(vfEqF(mn.X, loX), vfEqF(mx.X, hiX)), vfAnd(vfEqF(mn.Y, loY), vfEqF(mx.Y, hiY))), "bbox header is the envelope of the decoded geometry")
		vfReach("bbox")
	}
	vfReach("end")
}

func vfMinF(a, b float64) float64 {
	if a < b {
		return a
	}
	return b
}

func vfMaxF(a, b float64) float64 {
	if a > b {
		return a
	}
	return b
}

// C07 (finding F7): a MultiPolygon with an empty member keeps its coordinate type.
func vfhC07MultiPolygonEmptyMember() {
	ct := vfCT("ct")
	ring := make([]float64, 0, 16)
	pts := [][2]float64{{0, 0}, {1, 0}, {0, 1}, {0, 0}}
	for _, p := range pts {
		ring = append(ring, p[0], p[1])
		for d := 2; d < ct.Dimension(); d++ {
			ring = append(ring, 1)
		}
	}
	poly := NewPolygon([]LineString{NewLineString(NewSequence(ring, ct))})
	polys := []Polygon{poly, Polygon{}.ForceCoordinatesType(ct)}
	if vfBool("empty-first") {
		polys[0], polys[1] = polys[1], polys[0]
	}
	mp := NewMultiPolygon(polys).AsGeometry()
	twkb, err := MarshalTWKB(mp, 0)
	vfAssert(err == nil, "marshal succeeds")
	g2, err := UnmarshalTWKB(twkb, NoValidate{})
	vfAssert(err == nil, "unmarshal succeeds")
	vfAssert(g2.IsMultiPolygon(), "type")
	vfAssert(g2.CoordinatesType() == ct, "coordinate type survives (the geometry contains ordinates)")
	vfReach("end")
}

// C07: GeometryCollection(Point, 2-point LineString), XY, precision 0, with
// the bbox header: it is the envelope of all three decoded positions (a member
// may extend the running box on both sides of an axis at once).
func vfhC07CollectionLine() {
	p := vfSmallCoords("p", DimXY, 0, 0, 0)
	a := vfSmallCoords("a", DimXY, 0, 0, 0)
	b := vfSmallCoords("b", DimXY, 0, 0, 0)
	ls := NewLineString(NewSequence([]float64{a.X, a.Y, b.X, b.Y}, DimXY))
	gc := NewGeometryCollection([]Geometry{NewPoint(p).AsGeometry(), ls.AsGeometry()}).AsGeometry()
	twkb, err := MarshalTWKB(gc, 0, TWKBBoundingBoxHeader())
	vfAssert(err == nil, "marshal succeeds")
	env, has, err := UnmarshalTWKBEnvelope(twkb)
	vfAssert(err == nil && has, "bbox header present")
	mn, mx, ok := env.XYEnvelope.MinMaxXYs()
	vfAssert(ok, "bbox not empty")
	ep, ea, eb := vfExpectCoords(p, 0, 0, 0), vfExpectCoords(a, 0, 0, 0), vfExpectCoords(b, 0, 0, 0)
	loX, hiX := vfMinF(ep.X, vfMinF(ea.X, eb.X)), vfMaxF(ep.X, vfMaxF(ea.X, eb.X))
	loY, hiY := vfMinF(ep.Y, vfMinF(ea.Y, eb.Y)), vfMaxF(ep.Y, vfMaxF(ea.Y, eb.Y))
	vfAssert(vfAnd(vfEqF(mn.X, loX), vfEqF(mx.X, hiX)), "bbox X range is the range of the decoded X ordinates")
	vfAssert(vfAnd(vfEqF(mn.Y, loY), vfEqF(mx.Y, hiY)), "bbox Y range is the range of the decoded Y ordinates")
	g2, err := UnmarshalTWKB(twkb, NoValidate{})
	vfAssert(err == nil && g2.IsGeometryCollection() && g2.MustAsGeometryCollection().NumGeometries() == 2, "full decode agrees on the structure")
	vfReach("end")
}

// C07: a collection of an empty member (of symbolic kind) and a full Point in
// either order, with every subset of {size, bbox} headers: decodes to the same
// structure; the size header tells the truth.
func vfhC07CollectionEmptyOrder() {
	c := vfSmallCoords("a", DimXY, 0, 0, 0)
	var e Geometry
	switch vfInt("empty-kind", 0, 3) {
	case 0:
		e = NewEmptyPoint(DimXY).AsGeometry()
	case 1:
		e = LineString{}.AsGeometry()
	case 2:
		e = Polygon{}.AsGeometry()
	default:
		e = MultiPoint{}.AsGeometry()
	}
	members := []Geometry{e, NewPoint(c).AsGeometry()}
	if vfBool("empty-last") {
		members[0], members[1] = members[1], members[0]
	}
	gc := NewGeometryCollection(members).AsGeometry()
	sizeHdr, bbox := vfBool("size"), vfBool("bbox")
	twkb, err := MarshalTWKB(gc, 0, vfOpts(sizeHdr, bbox, false, 0, 0, nil)...)
	vfAssert(err == nil, "marshal succeeds")
	g2, err := UnmarshalTWKB(twkb, NoValidate{})
	vfAssert(err == nil, "unmarshal succeeds")
	vfAssert(g2.IsGeometryCollection(), "type")
	out := g2.MustAsGeometryCollection()
	vfAssert(out.NumGeometries() == 2, "member count")
	for i := 0; i < 2; i++ {
		vfAssert(out.GeometryN(i).Type() == members[i].Type(), "member types in order")
		vfAssert(out.GeometryN(i).IsEmpty() == members[i].IsEmpty(), "member emptiness in order")
	}
	sz, hasSz, err := UnmarshalTWKBSize(twkb)
	vfAssert(err == nil && hasSz == sizeHdr, "size header presence")
	if sizeHdr {
		vfAssert(sz == len(twkb), "size header tells the truth")
		vfReach("size")
	}
	vfReach("end")
}

// Quick variant of vfhC07CollectionLine: the three X ordinates are symbolic,
// all three Y ordinates are one symbolic value; the bbox header alone is read
// back.
func vfhC07CollectionLineX() {
	px, ax, bx, y := vfBoundedOrd("p.x"), vfBoundedOrd("a.x"), vfBoundedOrd("b.x"), vfBoundedOrd("y")
	vfSmallScaled(px, 0)
	vfSmallScaled(ax, 0)
	vfSmallScaled(bx, 0)
	vfSmallScaled(y, 0)
	ls := NewLineString(NewSequence([]float64{ax, y, bx, y}, DimXY))
	gc := NewGeometryCollection([]Geometry{NewPoint(Coordinates{XY: XY{px, y}, Type: DimXY}).AsGeometry(), ls.AsGeometry()}).AsGeometry()
	twkb, err := MarshalTWKB(gc, 0, TWKBBoundingBoxHeader())
	vfAssert(err == nil, "marshal succeeds")
	env, has, err := UnmarshalTWKBEnvelope(twkb)
	vfAssert(err == nil && has, "bbox header present")
	mn, mx, ok := env.XYEnvelope.MinMaxXYs()
	vfAssert(ok, "bbox not empty")
	ep, ea, eb, ey := vfTWKBExpected(px, 0), vfTWKBExpected(ax, 0), vfTWKBExpected(bx, 0), vfTWKBExpected(y, 0)
	loX, hiX := vfMinF(ep, vfMinF(ea, eb)), vfMaxF(ep, vfMaxF(ea, eb))
	vfAssert(vfAnd(vfEqF(mn.X, loX), vfEqF(mx.X, hiX)), "bbox X range is the range of the decoded X ordinates")
	vfAssert(vfAnd(vfEqF(mn.Y, ey), vfEqF(mx.Y, ey)), "bbox Y range is the single decoded Y ordinate")
	vfReach("end")
}

// Polygons through TWKB with every subset of the writer options, a symbolic
// coordinate type and concrete integer ordinates (exact at precision 0): a
// polygon with a hole, alone, in a MultiPolygon and in a GeometryCollection,
// decodes to the same rings - same lengths, same ordinates incl. Z and M -
// whether the rings are stored closed or not.
func vfhC07PolygonOptions() {
	ct := vfCT("ct")
	src, err := UnmarshalWKT("POLYGON ZM((0 0 1 2,8 0 3 4,8 8 5 6,0 8 7 8,0 0 1 2),(2 2 9 1,4 2 8 2,4 4 7 3,2 4 6 4,2 2 9 1))")
	vfAssert(err == nil, "source parses")
	poly := src.ForceCoordinatesType(ct)
	var g Geometry
	switch vfInt("wrap", 0, 2) {
	case 0:
		g = poly
	case 1:
		other, err := UnmarshalWKT("POLYGON ZM((20 20 1 1,20 24 3 3,24 20 2 2,20 20 1 1))") // clockwise, apart
		vfAssert(err == nil, "second polygon parses")
		g = NewMultiPolygon([]Polygon{poly.MustAsPolygon(), other.ForceCoordinatesType(ct).MustAsPolygon()}).AsGeometry()
	default:
		g = NewGeometryCollection([]Geometry{NewPoint(Coordinates{XY: XY{1, 1}, Z: 5, M: 6, Type: DimXYZM}).ForceCoordinatesType(ct).AsGeometry(), poly}).AsGeometry()
	}
	sizeHdr, bbox, closeRings := vfBool("size"), vfBool("bbox"), vfBool("close-rings")
	twkb, err := MarshalTWKB(g, 0, vfOpts(sizeHdr, bbox, closeRings, 0, 0, nil)...)
	vfAssert(err == nil, "marshal succeeds")
	back, err := UnmarshalTWKB(twkb)
	vfAssert(err == nil, "unmarshal succeeds")
	vfAssert(back.Type() == g.Type() && back.CoordinatesType() == ct, "type and coordinate type")
	vfAssert(ExactEquals(back, g), "same rings, same ordinates (Z and M included), no vertex invented")
	a, b := g.DumpCoordinates(), back.DumpCoordinates()
	vfAssert(a.Length() == b.Length(), "same number of control points")
	sz, has, err := UnmarshalTWKBSize(twkb)
	vfAssert(err == nil && has == sizeHdr && (!has || sz == len(twkb)), "size header tells the truth")
	env, hasBB, err := UnmarshalTWKBEnvelope(twkb)
	vfAssert(err == nil && hasBB == bbox, "bbox header presence")
	if bbox {
		vfAssert(env.XYEnvelope == g.Envelope(), "bbox header is the XY envelope")
	}
	vfReach("end")
}
