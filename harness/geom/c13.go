//go:build verif

package geom

func init() {
	vfHarnesses["C13_hull_3"] = vfhC13Hull3
	vfHarnesses["C13_hull_4"] = vfhC13Hull4
	vfHarnesses["C13_hull_empty_members"] = vfhC13HullEmptyMembers
	vfHarnesses["C13_hull_4_sorted"] = vfhC13Hull4Sorted
}

func vfMultiPointXY(pts ...XY) MultiPoint {
	ps := make([]Point, len(pts))
	for i, p := range pts {
		ps[i] = vfPointXY(p)
	}
	return NewMultiPoint(ps)
}

// vfCheckHull: the generic obligations on a hull of the given control points.
func vfCheckHull(h Geometry, pts []XY) {
	vfAssert(!h.IsEmpty(), "hull of a non-empty input is non-empty")
	vfAssert(h.CoordinatesType() == DimXY, "hull is XY")
	switch {
	case h.IsPoint():
		xy, _ := h.MustAsPoint().XY()
		for _, p := range pts {
			vfAssert(vfEqXY(p, xy), "Point hull: all control points coincide with it")
		}
		vfReach("point")
	case h.IsLineString():
		seq := h.MustAsLineString().Coordinates()
		vfAssert(seq.Length() == 2, "linear hull has two points")
		a, b := seq.GetXY(0), seq.GetXY(1)
		vfAssert(!vfEqXY(a, b), "the two points differ")
		for _, p := range pts {
			vfAssert(vfOnSeg(p, a, b), "linear hull covers every control point")
		}
		isA, isB := false, false
		for _, p := range pts {
			isA = vfOr(isA, vfEqXY(p, a))
			isB = vfOr(isB, vfEqXY(p, b))
		}
		vfAssert(vfAnd(isA, isB), "its end points are control points")
		vfReach("line")
	case h.IsPolygon():
		poly := h.MustAsPolygon()
		vfAssert(poly.Validate() == nil, "polygonal hull is valid")
		vfAssert(poly.NumInteriorRings() == 0, "no holes")
		ring := poly.ExteriorRing().Coordinates()
		n := ring.Length() - 1
		vfAssert(n >= 3, "at least a triangle")
		twice := float64(0)
		for i := 0; i < n; i++ {
			twice += vfCross(ring.GetXY(0), ring.GetXY(i), ring.GetXY(i+1))
		}
		vfAssert(twice != 0, "non-zero area")
		for i := 0; i < n; i++ {
			v := ring.GetXY(i)
			isInput := false
			for _, p := range pts {
				isInput = vfOr(isInput, vfEqXY(p, v))
			}
			vfAssert(isInput, "every hull vertex is a control point")
			a, b, c := ring.GetXY(i), ring.GetXY(i+1), ring.GetXY((i+2)%n)
			turn := vfCross(a, b, c)
			vfAssert(turn != 0, "no three consecutive collinear vertices")
			vfAssert((turn > 0) == (twice > 0), "convex: every turn has the orientation of the ring")
			for _, p := range pts {
				side := vfCross(a, b, p)
				vfAssert(vfOr(side == 0, (side > 0) == (twice > 0)), "every control point is on the inner side of every edge")
			}
		}
		vfReach("polygon")
	default:
		vfAssert(false, "hull is a Point, LineString or Polygon")
	}
}

func vfhC13Hull3() {
	a, b, c := vfPt("a"), vfPt("b"), vfPt("c")
	pts := []XY{a, b, c}
	h := vfMultiPointXY(a, b, c).ConvexHull()
	vfCheckHull(h, pts)
	allSame := vfAnd(vfEqXY(a, b), vfEqXY(b, c))
	collinear := vfCross(a, b, c) == 0
	vfAssert(h.IsPoint() == allSame, "Point iff all control points coincide")
	vfAssert(h.IsPolygon() == !collinear, "Polygon iff not collinear")
	vfAssert(ExactEquals(h.ConvexHull(), h), "hull of the hull is the hull")
	h2 := vfMultiPointXY(c, a, b, a).ConvexHull()
	vfAssert(ExactEquals(h2, h), "independent of order and multiplicity")
	h3 := vfLineXY(b, c, a).ConvexHull()
	vfAssert(ExactEquals(h3, h), "independent of the geometry type carrying the points")
	vfReach("end")
}

func vfhC13Hull4() {
	a, b, c, d := vfPt("a"), vfPt("b"), vfPt("c"), vfPt("d")
	pts := []XY{a, b, c, d}
	h := vfMultiPointXY(a, b, c, d).ConvexHull()
	vfCheckHull(h, pts)
	h2 := vfMultiPointXY(d, c, b, a).ConvexHull()
	vfAssert(ExactEquals(h2, h), "independent of order")
	vfReach("end")
}

// Hull of 4 lattice points given in non-decreasing X order (every 4-point set
// can be labelled that way; independence of the order is C13_hull_3/4).
func vfhC13Hull4Sorted() {
	a, b, c, d := vfPt("a"), vfPt("b"), vfPt("c"), vfPt("d")
	vfAssume(vfAnd(a.X <= b.X, vfAnd(b.X <= c.X, c.X <= d.X)))
	h := vfMultiPointXY(a, b, c, d).ConvexHull()
	vfCheckHull(h, []XY{a, b, c, d})
	vfReach("end")
}

// Empty members are no control points: the hull of a MultiPoint (or a
// collection) with an EMPTY member at any position is the hull of the rest.
func vfhC13HullEmptyMembers() {
	a, b, c := vfPt("a"), vfPt("b"), vfPt("c")
	pts := []Point{vfPointXY(a), vfPointXY(b), vfPointXY(c)}
	e := NewEmptyPoint(DimXY)
	var withEmpty []Point
	switch vfInt("empty-at", 0, 3) {
	case 0:
		withEmpty = []Point{e, pts[0], pts[1], pts[2]}
	case 1:
		withEmpty = []Point{pts[0], e, pts[1], pts[2]}
	case 2:
		withEmpty = []Point{pts[0], pts[1], e, pts[2]}
	default:
		withEmpty = []Point{pts[0], pts[1], pts[2], e}
	}
	plain := NewMultiPoint(pts).ConvexHull()
	h := NewMultiPoint(withEmpty).ConvexHull()
	vfAssert(ExactEquals(h, plain), "the hull ignores an EMPTY member wherever it sits")
	gc := NewGeometryCollection([]Geometry{NewMultiPoint(withEmpty).AsGeometry(), LineString{}.AsGeometry()}).AsGeometry()
	vfAssert(ExactEquals(gc.ConvexHull(), plain), "also inside a collection")
	vfReach("end")
}
