//go:build verif

package geom

func init() {
	vfHarnesses["C15_boundary_lines"] = vfhC15BoundaryLines
	vfHarnesses["C15_boundary_types"] = vfhC15BoundaryTypes
	vfHarnesses["C15_point_on_surface"] = vfhC15PointOnSurface
	vfHarnesses["C15_point_on_surface_nested"] = vfhC15PointOnSurfaceNested
	vfHarnesses["C20_point_on_surface_nested"] = vfhC15PointOnSurfaceNested
}

// Boundary of a MultiLineString of two 2-point lines: the end points that
// occur an odd number of times, each once (mod-2 rule).
func vfhC15BoundaryLines() {
	a, b, c, d := vfPt("a"), vfPt("b"), vfPt("c"), vfPt("d")
	vfAssume(!vfEqXY(a, b))
	vfAssume(!vfEqXY(c, d))
	ends := []XY{a, b, c, d}
	mls := NewMultiLineString([]LineString{vfLineXY(a, b), vfLineXY(c, d)})
	bd := mls.Boundary()
	mult := func(x XY) int {
		n := 0
		for _, e := range ends {
			n += vfB2I(vfEqXY(x, e))
		}
		return n
	}
	nb := bd.NumPoints()
	for i := 0; i < nb; i++ {
		xy, ok := bd.PointN(i).XY()
		vfAssert(ok, "boundary points are not empty")
		m := mult(xy)
		vfAssert(m == 1 || m == 3, "every boundary point is an end point of odd degree")
		for j := i + 1; j < nb; j++ {
			other, _ := bd.PointN(j).XY()
			vfAssert(!vfEqXY(xy, other), "each boundary point once")
		}
	}
	for _, e := range ends {
		in := false
		for i := 0; i < nb; i++ {
			xy, _ := bd.PointN(i).XY()
			in = vfOr(in, vfEqXY(xy, e))
		}
		m := mult(e)
		vfAssert(in == (m == 1 || m == 3), "an end point is in the boundary iff its degree is odd")
	}
	vfAssert(bd.Boundary().IsEmpty(), "the boundary of the boundary is empty")
	vfAssert(mls.AsGeometry().Boundary().Dimension() == 0 || bd.IsEmpty(), "dimension one lower")
	vfObserveInt("boundary-points", int64(nb))
	vfReach("end")
}

// Boundary rules per type.
func vfhC15BoundaryTypes() {
	a, b, c := vfPt("a"), vfPt("b"), vfPt("c")
	pt := vfPointXY(a)
	vfAssert(pt.Boundary().IsEmpty() && pt.AsGeometry().Boundary().IsEmpty(), "points have no boundary")
	vfAssert(vfMultiPointXY(a, b).Boundary().IsEmpty(), "multipoints have no boundary")

	vfAssert(vfLineXY(a, b, c, a).Boundary().IsEmpty(), "closed lines have no boundary")
	open := vfLineXY(a, b, c)
	bd := open.Boundary()
	if vfEqXY(a, c) {
		vfAssert(bd.IsEmpty(), "closed lines have no boundary")
		return
	} else {
		vfAssert(bd.NumPoints() == 2, "open line: two end points")
		p0, _ := bd.PointN(0).XY()
		p1, _ := bd.PointN(1).XY()
		vfAssert(vfAnd(vfEqXY(p0, a), vfEqXY(p1, c)), "they are the start and the end point")
		vfReach("open")
	}

	vfAssume(vfCross(a, b, c) != 0)
	tri := vfTriangle(a, b, c)
	tb := tri.AsGeometry().Boundary()
	vfAssert(tb.Dimension() == 1, "polygon boundary is lineal")
	vfAssert(tb.Boundary().IsEmpty(), "rings are closed: boundary of the boundary is empty")
	rings := tri.Boundary()
	vfAssert(rings.NumLineStrings() == 1, "exactly the rings")
	vfAssert(ExactEquals(rings.LineStringN(0).AsGeometry(), tri.ExteriorRing().AsGeometry()), "the ring itself")
	mp := NewMultiPolygon([]Polygon{tri})
	vfAssert(mp.Boundary().NumLineStrings() == 1 && mp.AsGeometry().Boundary().Dimension() == 1, "multipolygon boundary")

	gc := NewGeometryCollection([]Geometry{pt.AsGeometry(), tri.AsGeometry(), vfLineXY(a, b).AsGeometry()})
	gb := gc.Boundary()
	vfAssert(gb.NumGeometries() == 2, "collection boundary: the non-empty member boundaries")
	vfAssert(gb.GeometryN(0).Dimension() == 1 && gb.GeometryN(1).Dimension() == 0, "in member order, each one dimension lower")
	// non-empty members whose boundary is empty (a closed line, lines whose end
	// points cancel, a nested collection of such) contribute nothing
	closed := vfLineXY(a, b, c, a)
	cancel := NewMultiLineString([]LineString{vfLineXY(a, b), vfLineXY(b, a)})
	nested := NewGeometryCollection([]Geometry{closed.AsGeometry(), pt.AsGeometry()})
	gc2 := NewGeometryCollection([]Geometry{closed.AsGeometry(), tri.AsGeometry(), cancel.AsGeometry(), nested.AsGeometry(), vfLineXY(b, c).AsGeometry()})
	gb2 := gc2.Boundary()
	vfAssert(gb2.NumGeometries() == 2, "members with an empty boundary contribute nothing to the collection's boundary")
	for i := 0; i < gb2.NumGeometries(); i++ {
		vfAssert(!gb2.GeometryN(i).IsEmpty(), "no member of a collection's boundary is empty")
	}
	vfAssert(NewGeometryCollection([]Geometry{closed.AsGeometry()}).Boundary().IsEmpty() && NewGeometryCollection([]Geometry{closed.AsGeometry()}).Boundary().NumGeometries() == 0, "a collection of closed lines has the empty collection as boundary")
	vfReach("end")
}

// PointOnSurface: empty iff input empty; for points and lines the result
// intersects the geometry.
func vfhC15PointOnSurface() {
	a, b, c := vfPt("a"), vfPt("b"), vfPt("c")
	mp := vfMultiPointXY(a, b, c).AsGeometry()
	p := mp.PointOnSurface()
	xy, ok := p.XY()
	vfAssert(ok, "non-empty input gives a non-empty point")
	vfAssert(vfOr(vfEqXY(xy, a), vfOr(vfEqXY(xy, b), vfEqXY(xy, c))), "for a MultiPoint the result is one of its points")
	vfAssume(!vfEqXY(a, b))
	vfAssume(!vfEqXY(b, c))
	ls := vfLineXY(a, b, c).AsGeometry()
	q := ls.PointOnSurface()
	qxy, ok := q.XY()
	vfAssert(ok, "non-empty line gives a non-empty point")
	vfAssert(vfOr(vfEqXY(qxy, a), vfOr(vfEqXY(qxy, b), vfEqXY(qxy, c))), "for a LineString the result is one of its vertices")
	vfAssert(Intersects(q.AsGeometry(), ls), "and it intersects the line")
	gc := NewGeometryCollection([]Geometry{mp, ls}).AsGeometry()
	r := gc.PointOnSurface()
	rxy, ok := r.XY()
	vfAssert(ok, "collection: non-empty")
	vfAssert(vfOr(vfEqXY(rxy, a), vfOr(vfEqXY(rxy, b), vfEqXY(rxy, c))), "collection: taken from the member of highest dimension (a line vertex)")
	vfReach("end")
}

// PointOnSurface of (nested) collections with empty members of every kind:
// empty iff the collection is empty, otherwise a point of a member of the
// highest non-empty dimension.
func vfhC15PointOnSurfaceNested() {
	a, b := XY{0, 0}, XY{2, 2} // concrete shapes: the structure is what is symbolic here
	e1 := vfEmpty(vfInt("e1", 0, vfNumEmpties-1), DimXY)
	e2 := vfEmpty(vfInt("e2", 0, vfNumEmpties-1), DimXY)
	line := vfLineXY(a, b).AsGeometry()
	pt := vfPointXY(a).AsGeometry()
	var g Geometry
	wantLine := false
	switch vfInt("shape", 0, 3) {
	case 0: // nested: the inner collection holds an empty of any dimension next to the line
		inner := NewGeometryCollection([]Geometry{e1, line}).AsGeometry()
		g = NewGeometryCollection([]Geometry{inner, e2}).AsGeometry()
		wantLine = true
	case 1:
		inner := NewGeometryCollection([]Geometry{e1, pt}).AsGeometry()
		g = NewGeometryCollection([]Geometry{e2, inner}).AsGeometry()
	case 2:
		g = NewGeometryCollection([]Geometry{e1, pt, e2, line}).AsGeometry()
		wantLine = true
	default:
		g = NewGeometryCollection([]Geometry{e1, NewGeometryCollection([]Geometry{e2}).AsGeometry()}).AsGeometry()
	}
	p := g.PointOnSurface()
	vfAssert(p.IsEmpty() == g.IsEmpty(), "PointOnSurface is empty iff the geometry is empty")
	if !g.IsEmpty() {
		xy, _ := p.XY()
		if wantLine {
			vfAssert(vfOnSeg(xy, a, b), "the point lies on the member of the highest non-empty dimension (the line)")
		} else {
			vfAssert(vfEqXY(xy, a), "the point is the only non-empty member")
		}
		vfReach("non-empty")
	} else {
		vfReach("empty")
	}
	vfReach("end")
}
