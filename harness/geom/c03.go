//go:build verif

package geom

func init() {
	vfHarnesses["C03_two_holes"] = vfhC03TwoHoles
	vfHarnesses["C03_two_holes_both"] = vfhC03TwoHolesBoth
	vfHarnesses["C03_closed_ring_6"] = vfhC03ClosedRing6
	vfHarnesses["C03_triangle_hole"] = vfhC03TriangleHole
	vfHarnesses["C03_nonfinite_point"] = vfhC03NonFinitePoint
	vfHarnesses["C03_nonfinite_line"] = vfhC03NonFiniteLine
	vfHarnesses["C03_issimple_3"] = vfhC03IsSimple3
	vfHarnesses["C03_issimple_4"] = vfhC03IsSimple4
	vfHarnesses["C03_ring_4"] = vfhC03Ring4
	vfHarnesses["C03_multipolygon_empty_position"] = vfhC03MultiPolygonEmptyPosition
}

// Validate on a Point: nil iff empty or X and Y are finite; Z/M are never
// inspected (all 64-bit patterns, all coordinate types).
func vfhC03NonFinitePoint() {
	ct := vfCT("ct")
	c := vfCoords("p", ct)
	p := NewPoint(c)
	ok := p.Validate() == nil
	vfAssert(ok == vfAnd(vfFinite(c.X), vfFinite(c.Y)), "Point valid iff X and Y finite")
	vfAssert(p.AsGeometry().Validate() == nil == ok, "Geometry.Validate agrees")
	vfAssert(NewEmptyPoint(ct).Validate() == nil, "empty point is valid")
	vfReach("end")
}

// Validate on a LineString of 2 points (arbitrary floats): nil iff all XY
// finite and the two points differ.
func vfhC03NonFiniteLine() {
	ct := vfCT("ct")
	seq := vfSeqF("o", 2, ct)
	ls := NewLineString(seq)
	a, b := seq.GetXY(0), seq.GetXY(1)
	finite := vfAnd(vfAnd(vfFinite(a.X), vfFinite(a.Y)), vfAnd(vfFinite(b.X), vfFinite(b.Y)))
	distinct := vfOr(a.X != b.X, a.Y != b.Y)
	ok := ls.Validate() == nil
	vfAssert(ok == vfAnd(finite, distinct), "LineString valid iff finite XY and two distinct points")
	vfReach("end")
}

func vfDot(o, a, p, b XY) float64 { // (a-o).(b-p)
	return (a.X-o.X)*(b.X-p.X) + (a.Y-o.Y)*(b.Y-p.Y)
}

// vfBacktrack: consecutive segments (a,b),(b,c) overlap (c folds back over ab).
func vfBacktrack(a, b, c XY) bool {
	return vfAnd(vfCross(a, b, c) == 0, vfDot(a, b, b, c) < 0)
}

// IsSimple on 3 lattice points (consecutive points distinct).
func vfhC03IsSimple3() {
	p0, p1, p2 := vfPt("p0"), vfPt("p1"), vfPt("p2")
	vfAssume(!vfEqXY(p0, p1))
	vfAssume(!vfEqXY(p1, p2))
	ls := vfLineXY(p0, p1, p2)
	want := !vfBacktrack(p0, p1, p2)
	vfAssert(ls.IsSimple() == want, "IsSimple(3 points) is no-fold-back")
	vfAssert(ls.Reverse().IsSimple() == want, "independent of direction")
	vfReach("end")
}

// IsSimple / IsRing / IsClosed on 4 lattice points (consecutive distinct).
func vfhC03IsSimple4() {
	p0, p1, p2, p3 := vfPt("p0"), vfPt("p1"), vfPt("p2"), vfPt("p3")
	vfAssume(!vfEqXY(p0, p1))
	vfAssume(!vfEqXY(p1, p2))
	vfAssume(!vfEqXY(p2, p3))
	ls := vfLineXY(p0, p1, p2, p3)
	closed := vfEqXY(p0, p3)
	var want bool
	if closed {
		// first and last segment may share only the closing point
		sameDir := vfAnd(vfCross(p0, p1, p2) == 0, vfDot(p0, p1, p0, p2) > 0)
		want = vfAnd(vfAnd(!vfBacktrack(p0, p1, p2), !vfBacktrack(p1, p2, p3)), !sameDir)
		vfReach("closed")
	} else {
		want = vfAnd(vfAnd(!vfBacktrack(p0, p1, p2), !vfBacktrack(p1, p2, p3)), !vfSegsMeet(p0, p1, p2, p3))
		vfReach("open")
	}
	vfAssert(ls.IsClosed() == closed, "IsClosed")
	got := ls.IsSimple()
	vfAssert(got == want, "IsSimple(4 points)")
	vfAssert(ls.IsRing() == vfAnd(closed, want), "IsRing = closed and simple")
	if got {
		vfReach("simple")
	} else {
		vfReach("not-simple")
	}
	vfReach("end")
}

// Polygon.Validate for a single ring of 4 lattice points: valid iff the ring is
// closed and its three distinct vertices are not collinear.
func vfhC03Ring4() {
	p0, p1, p2, p3 := vfPt("p0"), vfPt("p1"), vfPt("p2"), vfPt("p3")
	poly := NewPolygon([]LineString{vfLineXY(p0, p1, p2, p3)})
	want := vfAnd(vfEqXY(p0, p3), vfCross(p0, p1, p2) != 0)
	got := poly.Validate() == nil
	vfAssert(got == want, "4-point ring valid iff closed and not collinear")
	// representation independence: rotate the start vertex and reverse
	if want {
		rot := NewPolygon([]LineString{vfLineXY(p1, p2, p0, p1)})
		vfAssert(rot.Validate() == nil, "valid under rotation of the start vertex")
		rev := NewPolygon([]LineString{vfLineXY(p0, p2, p1, p0)})
		vfAssert(rev.Validate() == nil, "valid under reversal")
		vfReach("valid")
	} else {
		vfReach("invalid")
	}
	vfReach("end")
}

// MultiPolygon.Validate on the right triangle (0,0),(4,0),(0,4) and a lattice
// translate of the right triangle (0,0),(2,0),(0,2), with an EMPTY member
// before, between or after them (or none), in either member order: valid iff
// the interiors are disjoint (for this family the boundaries then meet in at
// most one point).
func vfhC03MultiPolygonEmptyPosition() {
	fixed := vfTriangle(XY{0, 0}, XY{4, 0}, XY{0, 4})
	t := vfPt("t")
	other := vfTriangle(t, XY{t.X + 2, t.Y}, XY{t.X, t.Y + 2})
	// Stated bound: no edge of one triangle properly crosses an edge of the
	// other (a proper crossing makes Validate compare crossing points that are
	// quotients, which the exact domain cannot carry: DESIGN 4.5). What remains:
	// disjoint, touching at a vertex or along an edge, and nested.
	f := []XY{{0, 0}, {4, 0}, {0, 4}}
	o := []XY{t, {t.X + 2, t.Y}, {t.X, t.Y + 2}}
	for i := 0; i < 3; i++ {
		for j := 0; j < 3; j++ {
			vfAssume(!vfProperCross(f[i], f[(i+1)%3], o[j], o[(j+1)%3]))
		}
	}
	if vfBool("swap") {
		fixed, other = other, fixed
	}
	var e Polygon
	var mp MultiPolygon
	switch vfInt("empty-at", 0, 3) {
	case 0:
		mp = NewMultiPolygon([]Polygon{e, fixed, other})
	case 1:
		mp = NewMultiPolygon([]Polygon{fixed, e, other})
	case 2:
		mp = NewMultiPolygon([]Polygon{fixed, other, e})
	default:
		mp = NewMultiPolygon([]Polygon{fixed, other})
	}
	// open triangles {x>0,y>0,x+y<4} and {x>tx,y>ty,x+y<tx+ty+2} are disjoint iff
	disjoint := vfMax(0, t.X)+vfMax(0, t.Y) >= vfMin(4, t.X+t.Y+2)
	got := mp.Validate() == nil
	vfAssert(got == disjoint, "valid iff the members' interiors are disjoint, wherever the EMPTY member sits")
	if got {
		vfReach("valid")
	} else {
		vfReach("invalid")
	}
	vfReach("end")
}

// Polygon.Validate on a square shell [0,8]^2 with one triangular hole that is a
// rigid lattice translate of one of three shapes, optionally with its start
// vertex repeated; no edge of the hole properly crosses an edge of the shell
// (stated bound, as in the MultiPolygon harness). What remains: hole inside,
// outside, around the shell, touching it at vertices or along edges.
func vfhC03TriangleHole() {
	t := vfPt("t")
	var off [3]XY
	switch vfInt("shape", 0, 2) {
	case 0:
		off = [3]XY{{0, 0}, {2, 0}, {0, 2}}
	case 1:
		off = [3]XY{{0, 0}, {-2, 1}, {-1, 2}}
	default:
		off = [3]XY{{0, 0}, {20, -1}, {-1, 20}}
	}
	var h [3]XY
	for i := range h {
		h[i] = XY{t.X + off[i].X, t.Y + off[i].Y}
	}
	sh := []XY{{0, 0}, {8, 0}, {8, 8}, {0, 8}}
	for i := 0; i < 4; i++ {
		for j := 0; j < 3; j++ {
			vfAssume(!vfProperCross(sh[i], sh[(i+1)%4], h[j], h[(j+1)%3]))
		}
	}
	shell := vfLineXY(sh[0], sh[1], sh[2], sh[3], sh[0])
	var hole LineString
	if vfBool("repeat-start") {
		hole = vfLineXY(h[0], h[0], h[1], h[2], h[0])
	} else {
		hole = vfLineXY(h[0], h[1], h[2], h[0])
	}
	poly := NewPolygon([]LineString{shell, hole})
	inClosed, onBoundary := 0, 0
	for i := range h {
		if vfAnd(vfAnd(h[i].X >= 0, h[i].X <= 8), vfAnd(h[i].Y >= 0, h[i].Y <= 8)) {
			inClosed++
			if vfOr(vfOr(h[i].X == 0, h[i].X == 8), vfOr(h[i].Y == 0, h[i].Y == 8)) {
				onBoundary++
			}
		}
	}
	want := inClosed == 3 && onBoundary <= 1
	got := poly.Validate() == nil
	vfAssert(got == want, "valid iff the hole lies in the closed shell and touches it in at most one point")
	if got {
		vfReach("valid")
		if onBoundary == 1 {
			vfReach("valid-touching")
		}
	} else {
		vfReach("invalid")
	}
	vfReach("end")
}

// IsSimple / IsRing / Polygon.Validate on a closed curve of 5 segments
// (6 points): the start vertex v0 is a symbolic lattice point, the other four
// vertices are one of three concrete chains. Simple iff non-adjacent segments
// are disjoint and adjacent ones (incl. the closing pair) do not fold back; the
// verdict does not depend on which vertex the ring is written from.
func vfhC03ClosedRing6() {
	v0 := vfPt("v0")
	var c [4]XY
	switch vfInt("chain", 0, 2) {
	case 0:
		c = [4]XY{{2, 0}, {2, 2}, {-2, -2}, {-2, 0}} // the middle segment runs through the origin
	case 1:
		c = [4]XY{{4, 0}, {4, 4}, {0, 4}, {0, 2}}
	default:
		c = [4]XY{{2, 1}, {1, 2}, {-1, 2}, {-2, 1}}
	}
	vfAssume(!vfEqXY(v0, c[0]))
	vfAssume(!vfEqXY(v0, c[3]))
	v := [6]XY{v0, c[0], c[1], c[2], c[3], v0}
	simple := true
	for i := 0; i < 5; i++ {
		for j := i + 1; j < 5; j++ {
			switch {
			case j == i+1:
				simple = vfAnd(simple, !vfBacktrack(v[i], v[i+1], v[j+1]))
			case i == 0 && j == 4:
				// closing pair (v4,v0),(v0,v1): only the closing point is shared
				simple = vfAnd(simple, !vfBacktrack(v[4], v[0], v[1]))
			default:
				simple = vfAnd(simple, !vfSegsMeet(v[i], v[i+1], v[j], v[j+1]))
			}
		}
	}
	ring := vfLineXY(v[0], v[1], v[2], v[3], v[4], v[5])
	rot := vfLineXY(v[1], v[2], v[3], v[4], v[0], v[1])
	rot3 := vfLineXY(v[3], v[4], v[0], v[1], v[2], v[3])
	got := ring.IsSimple()
	vfAssert(got == simple, "IsSimple(closed, 5 segments) is no-self-contact")
	vfAssert(rot.IsSimple() == simple, "the same curve written from the next vertex")
	vfAssert(rot3.IsSimple() == simple, "the same curve written from the fourth vertex")
	vfAssert(ring.Reverse().IsSimple() == simple, "the same curve reversed")
	vfAssert(ring.IsRing() == simple, "IsRing = closed and simple")
	vfAssert((NewPolygon([]LineString{ring}).Validate() == nil) == simple, "a polygon with this shell is valid iff the ring is simple")
	if got {
		vfReach("simple")
	} else {
		vfReach("not-simple")
	}
	vfReach("end")
}

// Polygon.Validate with two holes: shell [0,10]^2, hole A = [2,8]^2, hole B a
// lattice translate of a small triangle written from any of its three
// vertices; no edge of B properly crosses an edge of A or of the shell. Valid
// iff B lies in the closed shell touching it at most once, no vertex of B is
// strictly inside A (not nested, not overlapping) and A and B touch at most
// once (a vertex of one on the boundary of the other).
func vfhC03TwoHoles()     { vfTwoHoles(false) }
func vfhC03TwoHolesBoth() { vfTwoHoles(true) }

func vfTwoHoles(bothOrders bool) {
	t := vfPt("t")
	off := [3]XY{{0, 0}, {2, 1}, {1, 2}}
	var h [3]XY
	for i := range h {
		h[i] = XY{t.X + off[i].X, t.Y + off[i].Y}
	}
	sh := []XY{{0, 0}, {10, 0}, {10, 10}, {0, 10}}
	ha := []XY{{2, 2}, {8, 2}, {8, 8}, {2, 8}}
	for i := 0; i < 4; i++ {
		for j := 0; j < 3; j++ {
			vfAssume(!vfProperCross(sh[i], sh[(i+1)%4], h[j], h[(j+1)%3]))
			vfAssume(!vfProperCross(ha[i], ha[(i+1)%4], h[j], h[(j+1)%3]))
		}
	}
	s := vfInt("start", 0, 2)
	shell := vfLineXY(sh[0], sh[1], sh[2], sh[3], sh[0])
	holeA := vfLineXY(ha[0], ha[1], ha[2], ha[3], ha[0])
	holeB := vfLineXY(h[s], h[(s+1)%3], h[(s+2)%3], h[s])
	rings := []LineString{shell, holeA, holeB}
	if bothOrders && vfBool("b-first") {
		rings = []LineString{shell, holeB, holeA}
	}
	poly := NewPolygon(rings)

	inShell, onShell, inA, contacts := 0, 0, 0, 0
	for i := range h {
		if vfAnd(vfAnd(h[i].X >= 0, h[i].X <= 10), vfAnd(h[i].Y >= 0, h[i].Y <= 10)) {
			inShell++
			if vfOr(vfOr(h[i].X == 0, h[i].X == 10), vfOr(h[i].Y == 0, h[i].Y == 10)) {
				onShell++
			}
		}
		if vfAnd(vfAnd(h[i].X > 2, h[i].X < 8), vfAnd(h[i].Y > 2, h[i].Y < 8)) {
			inA++
		}
		for j := 0; j < 4; j++ {
			if vfOnSeg(h[i], ha[j], ha[(j+1)%4]) {
				contacts++
				break
			}
		}
	}
	for j := 0; j < 4; j++ {
		for i := 0; i < 3; i++ {
			a, b := h[i], h[(i+1)%3]
			if vfAnd(vfOnSeg(ha[j], a, b), vfAnd(!vfEqXY(ha[j], a), !vfEqXY(ha[j], b))) {
				contacts++
			}
		}
	}
	want := inShell == 3 && onShell <= 1 && inA == 0 && contacts <= 1
	got := poly.Validate() == nil
	vfAssert(got == want, "valid iff hole B is in the shell, outside hole A, and touches each of them at most once")
	if got {
		vfReach("valid")
		if contacts == 1 {
			vfReach("valid-touching-A")
		}
	} else {
		vfReach("invalid")
		if inA > 0 && contacts == 1 {
			vfReach("nested-touching")
		}
	}
	vfReach("end")
}
