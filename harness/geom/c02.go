//go:build verif

package geom

func init() {
	vfHarnesses["C02_relate_matches"] = vfhC02RelateMatches
	vfHarnesses["C02_predicate_duality"] = vfhC02PredicateDuality
	vfHarnesses["C02_contains_within"] = vfhC02ContainsWithin
	vfHarnesses["C02_transpose"] = vfhC02Transpose
	vfHarnesses["C02_relate_empty"] = vfhC02RelateEmpty
	vfHarnesses["C02_relate_point_point"] = vfhC02RelatePointPoint
	vfHarnesses["C02_relate_point_line"] = vfhC02RelatePointLine
	vfHarnesses["C02_relate_mod2"] = vfhC02RelateMod2
}

func vfIsMatrixChar(b byte) bool {
	return vfOr(vfOr(b == 'F', b == '0'), vfOr(b == '1', b == '2'))
}

func vfIsPatternChar(b byte) bool {
	return vfOr(vfIsMatrixChar(b), vfOr(b == 'T', b == '*'))
}

// vfEntryMatches: the documented per-entry rule.
func vfEntryMatches(m, p byte) bool {
	return vfOr(p == '*', vfOr(vfAnd(p == 'T', m != 'F'), p == m))
}

// RelateMatches with two arbitrary (ASCII) entries at symbolic positions
// k1 < k2 and matching entries elsewhere: error iff a byte is outside its
// alphabet (unless an earlier entry already failed to match), otherwise the
// per-entry rule.
func vfhC02RelateMatches() {
	mb, pb := []byte("012F012F0"), []byte("T*2FT1**0")
	k1 := vfInt("k1", 0, 8)
	k2 := vfInt("k2", 0, 8)
	vfAssume(k1 < k2)
	m1, p1, m2, p2 := vfByte("m1"), vfByte("p1"), vfByte("m2"), vfByte("p2")
	vfAssume(vfAnd(vfAnd(m1 < 0x80, p1 < 0x80), vfAnd(m2 < 0x80, p2 < 0x80)))
	mb[k1], pb[k1], mb[k2], pb[k2] = m1, p1, m2, p2
	got, err := RelateMatches(string(mb), string(pb))
	want := true
	wantErr := false
	decided := false
	for _, k := range []int{k1, k2} {
		if decided {
			continue
		}
		if !vfIsPatternChar(pb[k]) || !vfIsMatrixChar(mb[k]) {
			wantErr, decided = true, true
		} else if !vfEntryMatches(mb[k], pb[k]) {
			want, decided = false, true
		}
	}
	if wantErr {
		vfAssert(err != nil, "a character outside the alphabet is an error")
		vfReach("error")
	} else {
		vfAssert(err == nil, "well-formed operands give no error")
		vfAssert(got == want, "the documented per-entry rule")
		if got {
			vfReach("match")
		} else {
			vfReach("no-match")
		}
	}
	_, errLen := RelateMatches(string(mb[:8]), string(pb))
	vfAssert(errLen != nil, "a matrix that is not 9 long is an error")
	vfReach("end")
}

func vfMatrix(name string) matrix {
	var m matrix
	b := vfBytes(name, 9)
	for i := range m {
		vfAssume(vfIsMatrixChar(b[i]))
		m[i] = b[i]
	}
	return m
}

func vfAny(m string, pats ...string) bool {
	for _, p := range pats {
		ok, err := RelateMatches(m, p)
		vfAssert(err == nil, "documented patterns are well formed")
		if ok {
			return true
		}
	}
	return false
}

// For every matrix M in {F,0,1,2}^9 (standing for Relate(a,b)) and its
// transpose (Relate(b,a)): the documented pattern lists satisfy
// Contains(a,b)=Within(b,a), Covers(a,b)=CoveredBy(b,a), and Disjoint is the
// negation of "some interior/boundary entry is not F".
func vfhC02ContainsWithin() {
	m := vfMatrix("m")
	t := m
	t.transpose()
	ms, ts := m.code(), t.code()
	contains := vfAny(ms, "T*****FF*")
	within := vfAny(ts, "T*F**F***")
	vfAssert(contains == within, "Contains(a,b) = Within(b,a)")
	disjoint := vfAny(ms, "FF*FF****")
	someMeet := vfOr(vfOr(m[0] != 'F', m[1] != 'F'), vfOr(m[3] != 'F', m[4] != 'F'))
	vfAssert(disjoint == !someMeet, "Disjoint iff II, IB, BI, BB are all F")
	vfReach("end")
}

func vfhC02PredicateDuality() {
	m := vfMatrix("m")
	t := m
	t.transpose()
	ms, ts := m.code(), t.code()
	contains := vfAny(ms, "T*****FF*")
	within := vfAny(ts, "T*F**F***")
	vfAssert(contains == within, "Contains(a,b) = Within(b,a)")
	covers := vfAny(ms, "T*****FF*", "*T****FF*", "***T**FF*", "****T*FF*")
	coveredBy := vfAny(ts, "T*F**F***", "*TF**F***", "**FT*F***", "**F*TF***")
	vfAssert(covers == coveredBy, "Covers(a,b) = CoveredBy(b,a)")
	disjoint := vfAny(ms, "FF*FF****")
	someMeet := vfOr(vfOr(m[0] != 'F', m[1] != 'F'), vfOr(m[3] != 'F', m[4] != 'F'))
	vfAssert(disjoint == !someMeet, "Disjoint iff II, IB, BI, BB are all F")
	vfAssert(vfAny(ts, "FF*FF****") == disjoint, "Disjoint is symmetric")
	touches := vfAny(ms, "FT*******", "F**T*****", "F***T****")
	vfAssert(vfAny(ts, "FT*******", "F**T*****", "F***T****") == touches, "Touches is symmetric")
	vfAssert(!vfAnd(touches, disjoint), "Touches excludes Disjoint")
	equals := vfAny(ms, "T*F**FFF*")
	vfAssert(vfAny(ts, "T*F**FFF*") == equals, "Equals is symmetric")
	vfAssert(!equals || vfAnd(contains, vfAny(ms, "T*F**F***")), "Equals implies Contains and Within")
	vfReach("end")
}

// matrix.transpose is an involution moving entry (a,b) to (b,a).
func vfhC02Transpose() {
	m := vfMatrix("m")
	t := m
	t.transpose()
	for a := imInterior; a <= imExterior; a++ {
		for b := imInterior; b <= imExterior; b++ {
			vfAssert(t.get(b, a) == m.get(a, b), "entry (a,b) moves to (b,a)")
		}
	}
	tt := t
	tt.transpose()
	vfAssert(tt == m, "involution")
	vfReach("end")
}

// Relate with an empty operand: the closed form, and Relate(b,a) its transpose.
func vfhC02RelateEmpty() {
	a, b, c := vfPt("a"), vfPt("b"), vfPt("c")
	vfAssume(!vfEqXY(a, b))
	vfAssume(vfCross(a, b, c) != 0)
	e := vfEmpty(vfInt("kind", 0, vfNumEmpties-1), DimXY)
	var g Geometry
	var want string
	switch vfInt("shape", 0, 3) {
	case 0:
		g, want = vfPointXY(a).AsGeometry(), "FFFFFF0F2"
	case 1:
		g, want = vfLineXY(a, b).AsGeometry(), "FFFFFF102"
	case 2:
		g, want = vfLineXY(a, b, c, a).AsGeometry(), "FFFFFF1F2" // closed: no boundary
	default:
		g, want = vfTriangle(a, b, c).AsGeometry(), "FFFFFF212"
	}
	got, err := Relate(e, g)
	vfAssert(err == nil, "no error")
	vfAssert(got == want, "closed form for an empty first operand")
	rev, err := Relate(g, e)
	vfAssert(err == nil, "no error")
	var m, t matrix
	copy(m[:], got)
	copy(t[:], rev)
	t.transpose()
	vfAssert(t == m, "Relate(b,a) is the transpose of Relate(a,b)")
	vfReach("end")
}

func vfTransposeCode(m string) string {
	var t matrix
	copy(t[:], m)
	t.transpose()
	return t.code()
}

// Relate of two Points through the real overlay.
func vfhC02RelatePointPoint() {
	p, q := vfPtO("p"), vfPtO("q")
	a, b := vfPointXY(p).AsGeometry(), vfPointXY(q).AsGeometry()
	want := "FF0FFF0F2"
	if vfEqXY(p, q) {
		want = "0FFFFFFF2"
		vfReach("equal")
	}
	got, err := Relate(a, b)
	vfAssert(err == nil && got == want, "DE-9IM of two points")
	rev, err := Relate(b, a)
	vfAssert(err == nil && rev == vfTransposeCode(got), "Relate(b,a) is the transpose")
	eq, _ := Equals(a, b)
	dj, _ := Disjoint(a, b)
	vfAssert(eq == vfEqXY(p, q) && dj == !vfEqXY(p, q), "Equals / Disjoint follow")
	vfAssert(dj == !Intersects(a, b), "Disjoint is the negation of Intersects")
	vfReach("end")
}

// Relate of a Point and a 2-point LineString through the real overlay.
func vfhC02RelatePointLine() {
	p, a, b := vfPtO("p"), vfPtO("a"), vfPtO("b")
	vfAssume(!vfEqXY(a, b))
	gp, gl := vfPointXY(p).AsGeometry(), vfLineXY(a, b).AsGeometry()
	var want string
	switch {
	case vfOr(vfEqXY(p, a), vfEqXY(p, b)):
		want = "F0FFFF102" // on the boundary (an end point)
		vfReach("endpoint")
	case vfOnSeg(p, a, b):
		want = "0FFFFF102" // in the interior
		vfReach("interior")
	default:
		want = "FF0FFF102"
		vfReach("outside")
	}
	got, err := Relate(gp, gl)
	vfAssert(err == nil && got == want, "DE-9IM of a point and a line")
	rev, err := Relate(gl, gp)
	vfAssert(err == nil && rev == vfTransposeCode(got), "Relate(b,a) is the transpose")
	dj, _ := Disjoint(gp, gl)
	vfAssert(dj == !Intersects(gp, gl), "Disjoint is the negation of Intersects")
	vfReach("end")
}

// The mod-2 rule through Relate: three lines of a MultiLineString meet at X -
// two end there, one passes through - in every member order; X (two end
// points: even) is interior, so Relate(mls, POINT(X)) = 0F1FF0FF2. The shape
// is fixed, its position X is a symbolic lattice point.
func vfhC02RelateMod2() {
	x := vfPtO("x")
	vfAssume(vfAnd(vfAnd(x.X > -500, x.X < 500), vfAnd(x.Y > -500, x.Y < 500)))
	l1 := vfLineXY(XY{x.X - 1, x.Y}, x)
	l2 := vfLineXY(XY{x.X, x.Y + 1}, x, XY{x.X, x.Y - 1})
	l3 := vfLineXY(XY{x.X + 1, x.Y}, x)
	var lines []LineString
	switch vfInt("order", 0, 5) {
	case 0:
		lines = []LineString{l1, l2, l3}
	case 1:
		lines = []LineString{l1, l3, l2}
	case 2:
		lines = []LineString{l2, l1, l3}
	case 3:
		lines = []LineString{l2, l3, l1}
	case 4:
		lines = []LineString{l3, l1, l2}
	default:
		lines = []LineString{l3, l2, l1}
	}
	mls := NewMultiLineString(lines).AsGeometry()
	pt := vfPointXY(x).AsGeometry()
	got, err := Relate(mls, pt)
	vfAssert(err == nil && got == "0F1FF0FF2", "X has an even number of end points: it is interior (mod-2 rule)")
	touches, _ := Touches(mls, pt)
	vfAssert(!touches, "so the point does not merely touch the lines")
	vfReach("end")
}
