//go:build verif

package geom

func init() {
	vfHarnesses["C08_wkb_arbitrary"] = vfhC08WKBArbitrary
	vfHarnesses["C08_wkb_arbitrary_novalidate"] = vfhC08WKBArbitraryNoValidate
	vfHarnesses["C08_twkb_arbitrary"] = vfhC08TWKBArbitrary
	vfHarnesses["C08_twkb_headers"] = vfhC08TWKBHeaders
}

const (
	vfWKBLen  = 14
	vfTWKBLen = 3
)

// vfReencode: any geometry a decoder returns can be re-encoded in the binary
// formats without panicking.
func vfReencode(g Geometry) {
	_ = g.AsBinary()
	_, _ = MarshalTWKB(g, 0)
}

// C08 family A: UnmarshalWKB on an arbitrary buffer of every length 0..L.
func vfhC08WKBArbitrary() {
	n := vfInt("len", 0, vfWKBLen)
	buf := vfBytes("b", n)
	g, err := UnmarshalWKB(buf)
	if err == nil {
		vfAssert(g.Validate() == nil, "geometry returned without NoValidate is valid")
		vfReencode(g)
		vfReach("decoded")
	} else {
		vfReach("error")
	}
	vfReach("end")
}

func vfhC08WKBArbitraryNoValidate() {
	n := vfInt("len", 0, vfWKBLen)
	buf := vfBytes("b", n)
	g, err := UnmarshalWKB(buf, NoValidate{})
	if err == nil {
		vfReencode(g)
		vfReach("decoded")
	} else {
		vfReach("error")
	}
	vfReach("end")
}

// C08 family A: UnmarshalTWKB on an arbitrary buffer.
func vfhC08TWKBArbitrary() {
	n := vfInt("len", 0, vfTWKBLen)
	buf := vfBytes("b", n)
	g, err := UnmarshalTWKB(buf)
	if err == nil {
		vfAssert(g.Validate() == nil, "geometry returned without NoValidate is valid")
		_ = g.AsBinary()
		vfReach("decoded")
	} else {
		vfReach("error")
	}
	vfReach("end")
}

// The TWKB header-only readers on an arbitrary buffer.
func vfhC08TWKBHeaders() {
	n := vfInt("len", 0, vfTWKBLen)
	buf := vfBytes("b", n)
	_, _, err1 := UnmarshalTWKBEnvelope(buf)
	_, _, err2 := UnmarshalTWKBSize(buf)
	_, _, err3 := UnmarshalTWKBIDList(buf)
	if err1 == nil && err2 == nil && err3 == nil {
		vfReach("all-ok")
	}
	vfReach("end")
}
