//go:build verif

package geom

func init() {
	vfHarnesses["C08_twkb_count_field"] = vfhC08TWKBCountField
	vfHarnesses["C08_wkb_count_field"] = vfhC08WKBCountField
}

// C08 family B (TWKB): a well-formed header of every geometry kind, with or
// without an ID list, followed by a count field that is an arbitrary byte
// string of 1..10 bytes (every varint, well-formed or not, incl. 2^64-1) and
// an arbitrary 2-byte tail.
func vfhC08TWKBCountField() {
	kind := vfInt("kind", 1, 7)
	meta := byte(0)
	if kind >= 4 && vfBool("ids") {
		meta = 0x04
	}
	nv := 1
	if vfBool("long") {
		nv = 10 // the 10-byte form reaches every count from 2^63 to 2^64-1 (and overlong spellings)
	}
	v := vfBytes("v", nv)
	// all but the last byte carry the continuation bit: one varint spanning the field
	for i := 0; i < nv-1; i++ {
		vfAssume(v[i]&0x80 != 0)
	}
	tail := vfBytes("t", 2)
	buf := []byte{byte(kind), meta}
	if nv == 10 && vfBool("size-field") {
		// the arbitrary varint is the SIZE field (more is read after it: the count)
		buf[1] |= 0x02
		buf = append(buf, v...)
		buf = append(buf, 1)
	} else {
		buf = append(buf, v...)
	}
	buf = append(buf, tail...)
	_, _, _ = UnmarshalTWKBSize(buf)
	_, _, _ = UnmarshalTWKBEnvelope(buf)
	g, err := UnmarshalTWKB(buf, NoValidate{})
	if err == nil {
		_ = g.AsBinary()
		vfReach("decoded")
	} else {
		vfReach("error")
	}
	_, _, _ = UnmarshalTWKBIDList(buf)
	vfReach("end")
}

// C08 family B (WKB): header of every type and coordinate type in either byte
// order, then a fully symbolic 4-byte count, then an arbitrary tail of 8, 20 or 40 bytes.
func vfhC08WKBCountField() {
	gt := vfInt("type", 2, 7) // all counted types
	ct := vfInt("ct", 0, 3)
	code := uint32(ct*1000 + gt)
	bo := vfInt("bo", 0, 1)
	cnt := vfBytes("count", 4)
	tlen := 8
	switch vfInt("tail", 0, 2) {
	case 1:
		tlen = 20 // one XY point + 4, short for one XYZ point
	case 2:
		tlen = 40 // two XY points + 8, short for two XYZ points
	}
	if tlen > 8 {
		// the long tails are for the types whose body is raw coordinates
		vfAssume(gt <= 3)
	}
	tail := vfBytes("t", tlen)
	var buf []byte
	if bo == 1 {
		buf = []byte{1, byte(code), byte(code >> 8), byte(code >> 16), byte(code >> 24)}
	} else {
		buf = []byte{0, byte(code >> 24), byte(code >> 16), byte(code >> 8), byte(code)}
	}
	buf = append(buf, cnt...)
	buf = append(buf, tail...)
	g, err := UnmarshalWKB(buf, NoValidate{})
	if err == nil {
		_ = g.AsBinary()
		vfReach("decoded")
	} else {
		vfReach("error")
	}
	vfReach("end")
}
