//go:build verif

package geom

import "math"

func init() {
	vfHarnesses["C17_force_shapes"] = vfhC17ForceShapes
	vfHarnesses["C12_force_envelope"] = vfhC17ForceShapes
	vfHarnesses["C13_rotated_rect_shapes"] = vfhC13RotatedRectShapes
}

// ForceCW / ForceCCW / Reverse on every table geometry: the same members, rings
// and control points (only ring directions change): equal under IgnoreOrder,
// same envelope, same area and length, every member kept (also the non-areal
// members of a collection), and the result has the orientation asked for.
func vfhC17ForceShapes() {
	all := append(append(append([][2]string{}, vfC01Shapes...), vfC02Shapes...), vfC09Extra...)
	k := vfInt("case", 0, len(all)-1)
	side := 0
	if vfBool("second") {
		side = 1
	}
	g, err := UnmarshalWKT(all[k][side])
	vfAssert(err == nil, "operand parses")
	var f Geometry
	which := vfInt("op", 0, 2)
	switch which {
	case 0:
		f = g.ForceCW()
		vfAssert(f.IsCW(), "ForceCW gives a geometry for which IsCW holds")
	case 1:
		f = g.ForceCCW()
		vfAssert(f.IsCCW(), "ForceCCW gives a geometry for which IsCCW holds")
	default:
		f = g.Reverse()
	}
	vfAssert(f.Type() == g.Type() && f.Validate() == nil, "same type, still valid")
	vfAssert(f.Envelope() == g.Envelope(), "same envelope")
	vfAssert(f.Area() == g.Area() && f.Length() == g.Length(), "same area and length")
	vfAssert(f.DumpCoordinates().Length() == g.DumpCoordinates().Length(), "same number of control points")
	vfAssert(ExactEquals(f, g, IgnoreOrder), "the same geometry up to ring and line direction")
	if which != 2 {
		vfAssert(ExactEquals(f.ForceCW(), g.ForceCW()) && ExactEquals(f.ForceCCW(), g.ForceCCW()), "forcing again gives what forcing the original gives")
		vfAssert(ExactEquals(g.ForceCCW(), g.ForceCW().Reverse()) || !g.IsPolygon(), "for a polygon ForceCCW is the reverse of ForceCW")
	}
	vfReach("end")
}

// Rotated minimum-area / minimum-width bounding rectangles on concrete point
// sets and table geometries: the result is a rectangle (four right angles up to
// rounding), or the hull itself when that is a point or a segment; every real
// location of the geometry lies inside it (universal query, slack 1e-9 for the
// rounding of the rectangle's corners); its area is at most the area of the
// axis-parallel envelope.
func vfhC13RotatedRectShapes() {
	extra := []string{
		"MULTIPOINT(0 0,4 0,6 3,2 3)",      // parallelogram
		"MULTIPOINT(0 0,2 1,3 3,1 2,1 1)",  // rhombus with an inner point
		"MULTIPOINT(0 0,4 0,4 2,0 2)",      // rectangle
		"MULTIPOINT(0 0,5 1,6 4,2 6,-1 3)", // pentagon
		"LINESTRING(0 0,3 1,7 0,9 5)",      // open line
		"POLYGON((0 0,6 0,8 3,3 7,-2 4,0 0))",
	}
	all := append(append([][2]string{}, vfC01Shapes...), vfC09Extra...)
	var g Geometry
	var err error
	if vfBool("table") {
		k := vfInt("case", 0, len(all)-1)
		g, err = UnmarshalWKT(all[k][0])
	} else {
		g, err = UnmarshalWKT(extra[vfInt("extra", 0, len(extra)-1)])
	}
	vfAssert(err == nil, "operand parses")
	var r Geometry
	width := vfBool("width")
	if width {
		r = RotatedMinimumWidthBoundingRectangle(g)
	} else {
		r = RotatedMinimumAreaBoundingRectangle(g)
	}
	vfAssert(r.IsEmpty() == g.IsEmpty(), "empty iff g is empty")
	if r.IsPolygon() {
		ring := r.MustAsPolygon().ExteriorRing().Coordinates()
		vfAssert(ring.Length() == 5 && r.MustAsPolygon().NumInteriorRings() == 0, "a quadrilateral without holes")
		scale := 0.0
		for i := 0; i < 4; i++ {
			a, b, c := ring.GetXY(i), ring.GetXY((i+1)%4), ring.GetXY((i+2)%4)
			u, v := b.Sub(a), c.Sub(b)
			scale = math.Max(scale, u.Dot(u))
			vfAssert(math.Abs(u.Dot(v)) <= 1e-9*(u.Dot(u)+v.Dot(v)), "adjacent sides are perpendicular")
		}
		env := g.Envelope()
		vfAssert(width || r.Area() <= env.Area()*(1+1e-9), "the minimum-area rectangle is not larger than the axis-parallel envelope")
		// containment: every location of g is inside the rectangle grown by a hair
		p := XY{vfLattice("p.x", 6), vfLattice("p.y", 6)}
		inG, _ := vfLocIn(g, p)
		inside := true
		sign := 0.0
		for i := 0; i < 4; i++ {
			a, b := ring.GetXY(i), ring.GetXY((i+1)%4)
			cr := vfSpecCross(a, b, p)
			if sign == 0 {
				// orientation of the rectangle from its own corners
				sign = (b.X-a.X)*(ring.GetXY((i+2)%4).Y-a.Y) - (b.Y-a.Y)*(ring.GetXY((i+2)%4).X-a.X)
			}
			slack := 1e-9 * (1 + scale)
			if sign > 0 {
				inside = vfAnd(inside, cr >= -slack)
			} else {
				inside = vfAnd(inside, cr <= slack)
			}
		}
		vfAssert(vfOr(!inG, inside), "every location of g lies in the rectangle")
		vfReach("rectangle")
	}
	vfReach("end")
}

func init() {
	vfHarnesses["C13_rotated_rect_scale"] = vfhC13RotatedRectScale
}

// The rotated rectangles do not depend on the unit of length: scaling the
// input by a power of two (exact in float64) scales the rectangle with it, so
// its area scales by the square - the choice among the candidate rectangles
// must not involve an absolute tolerance.
func vfhC13RotatedRectScale() {
	shapes := []string{
		"MULTIPOINT(0 0,4 0,6 3,2 3)",
		"MULTIPOINT(0 0,2 1,3 3,1 2,1 1)",
		"MULTIPOINT(0 0,5 1,6 4,2 6,-1 3)",
		"LINESTRING(0 0,3 1,7 0,9 5)",
		"POLYGON((0 0,6 0,8 3,3 7,-2 4,0 0))",
		"POLYGON((0 0,4 5,0 10,0 0))",
		"POLYGON((1 0,9 2,8 6,0 4,1 0))",
		"MULTIPOINT(0 0,10 1,11 3,1 2,5 9)",
	}
	g, err := UnmarshalWKT(shapes[vfInt("shape", 0, len(shapes)-1)])
	vfAssert(err == nil, "operand parses")
	s := []float64{1.0 / (1 << 20), 1.0 / (1 << 30), 1 << 20}[vfInt("scale", 0, 2)]
	gs := g.TransformXY(func(p XY) XY { return XY{p.X * s, p.Y * s} })
	width := vfBool("width")
	var r, rs Geometry
	if width {
		r, rs = RotatedMinimumWidthBoundingRectangle(g), RotatedMinimumWidthBoundingRectangle(gs)
	} else {
		r, rs = RotatedMinimumAreaBoundingRectangle(g), RotatedMinimumAreaBoundingRectangle(gs)
	}
	vfAssert(r.IsPolygon() && rs.IsPolygon(), "both are rectangles")
	want := r.Area() * s * s
	vfAssert(math.Abs(rs.Area()-want) <= 1e-9*want, "the rectangle of the scaled input is the scaled rectangle")
	// and it is not larger than the axis-parallel envelope at that scale either
	vfAssert(width || rs.Area() <= gs.Envelope().Area()*(1+1e-9), "not larger than the envelope")
	vfReach("end")
}
