//go:build verif

package geom

func init() {
	vfHarnesses["C20_pos_transparency"] = vfhC20PointOnSurfaceTransparency
	vfHarnesses["C20_setop_transparency"] = vfhC20SetOpTransparency
}

// An empty member of any kind added to an operand (before or after it, or
// nested) changes the point set of no set-operation result: for every real
// location p, p in op(with, b) iff p in op(plain, b); an empty second operand
// gives the neutral answers.
func vfhC20SetOpTransparency() {
	e := vfEmpty(vfInt("kind", 0, vfNumEmpties-1), DimXY)
	var wa, wb string
	switch vfInt("case", 0, 3) {
	case 0:
		wa, wb = "POLYGON((0 0,4 0,4 4,0 4,0 0))", "POLYGON((2 2,6 2,6 6,2 6,2 2))"
	case 1:
		wa, wb = "LINESTRING(0 0,4 4)", "POLYGON((2 0,6 0,6 3,2 3,2 0))"
	case 2:
		wa, wb = "MULTIPOINT(1 1,5 5)", "LINESTRING(0 0,2 2)"
	default:
		wa, wb = "POLYGON((0 0,8 0,8 8,0 8,0 0),(2 2,6 2,6 6,2 6,2 2))", "LINESTRING(-1 4,9 4)"
	}
	plain, err := UnmarshalWKT(wa)
	vfAssert(err == nil, "operand a parses")
	b, err := UnmarshalWKT(wb)
	vfAssert(err == nil, "operand b parses")
	var with Geometry
	switch vfInt("pos", 0, 2) {
	case 0:
		with = NewGeometryCollection([]Geometry{e, plain}).AsGeometry()
	case 1:
		with = NewGeometryCollection([]Geometry{plain, e}).AsGeometry()
	default:
		with = NewGeometryCollection([]Geometry{NewGeometryCollection([]Geometry{e, plain, e}).AsGeometry()}).AsGeometry()
	}
	p := XY{vfLattice("p.x", 4), vfLattice("p.y", 4)}
	ops := []func(a, b Geometry) (Geometry, error){Union, Intersection, Difference, SymmetricDifference}
	names := []string{"Union", "Intersection", "Difference", "SymmetricDifference"}
	for i, op := range ops {
		r1, err1 := op(with, b)
		r0, err0 := op(plain, b)
		vfAssert(err0 == nil && err1 == nil, names[i]+": no error")
		in1, _ := vfLocIn(r1, p)
		in0, _ := vfLocIn(r0, p)
		vfAssert(in1 == in0, names[i]+"(with, b) has the point set of "+names[i]+"(plain, b)")
		s1, err1 := op(b, with)
		s0, err0 := op(b, plain)
		vfAssert(err0 == nil && err1 == nil, names[i]+" (reversed): no error")
		jn1, _ := vfLocIn(s1, p)
		jn0, _ := vfLocIn(s0, p)
		vfAssert(jn1 == jn0, names[i]+"(b, with) has the point set of "+names[i]+"(b, plain)")
		vfAssert(r1.Area() == r0.Area() && s1.Area() == s0.Area(), names[i]+": same area")
	}
	// an empty operand: neutral answers
	inPlain, _ := vfLocIn(plain, p)
	u, err := Union(plain, e)
	vfAssert(err == nil, "Union with an empty operand: no error")
	inU, _ := vfLocIn(u, p)
	vfAssert(inU == inPlain, "Union(a, empty) has a's point set")
	x, err := Intersection(plain, e)
	vfAssert(err == nil && x.IsEmpty(), "Intersection(a, empty) is empty")
	d, err := Difference(plain, e)
	vfAssert(err == nil, "Difference with an empty operand: no error")
	inD, _ := vfLocIn(d, p)
	vfAssert(inD == inPlain, "Difference(a, empty) has a's point set")
	d2, err := Difference(e, plain)
	vfAssert(err == nil && d2.IsEmpty(), "Difference(empty, a) is empty")
	s, err := SymmetricDifference(e, plain)
	vfAssert(err == nil, "SymmetricDifference with an empty operand: no error")
	inS, _ := vfLocIn(s, p)
	vfAssert(inS == inPlain, "SymmetricDifference(empty, a) has a's point set")
	// Union with an empty operand in either position is the self-union of the
	// other operand, also when that operand is a collection of overlapping members
	ov, err := UnmarshalWKT("GEOMETRYCOLLECTION(POLYGON((0 0,4 0,4 4,0 4,0 0)),POLYGON((2 2,6 2,6 6,2 6,2 2)),LINESTRING(1 1,3 3),LINESTRING(2 2,8 8))")
	vfAssert(err == nil, "overlapping collection parses")
	self, err := UnaryUnion(ov)
	vfAssert(err == nil, "UnaryUnion: no error")
	u1, err1 := Union(e, ov)
	u2, err2 := Union(ov, e)
	vfAssert(err1 == nil && err2 == nil, "Union with an empty operand: no error")
	vfAssert(ExactEquals(u1, self) && ExactEquals(u2, self), "Union(empty, x) and Union(x, empty) are UnaryUnion(x)")
	vfAssert(u1.Area() == 28 && u2.Area() == 28, "and have the area of the point set, not of the members")
	uu, err := UnaryUnion(with)
	vfAssert(err == nil, "UnaryUnion: no error")
	inUU, _ := vfLocIn(uu, p)
	vfAssert(inUU == inPlain, "UnaryUnion(with) has a's point set")
	vfReach("end")
}

// PointOnSurface is unchanged by an empty member: MultiPoint, MultiLineString of
// 2-point lines and GeometryCollection with symbolic lattice members around the
// origin and an empty member at a symbolic position.
func vfhC20PointOnSurfaceTransparency() {
	a, b := vfPt("a"), vfPt("b")
	pos := vfInt("pos", 0, 2)
	ins := func(n int) []int { // index list with -1 marking the empty member
		switch pos {
		case 0:
			return []int{-1, 0, 1}
		case 1:
			return []int{0, -1, 1}
		default:
			return []int{0, 1, -1}
		}
	}
	var plain, with Geometry
	switch vfInt("type", 0, 2) {
	case 0:
		pts := []Point{vfPointXY(a), vfPointXY(b)}
		plain = NewMultiPoint(pts).AsGeometry()
		var w []Point
		for _, k := range ins(2) {
			if k < 0 {
				w = append(w, NewEmptyPoint(DimXY))
			} else {
				w = append(w, pts[k])
			}
		}
		with = NewMultiPoint(w).AsGeometry()
	case 1:
		c, d := XY{a.X + 2, a.Y + 1}, XY{b.X - 1, b.Y + 3}
		ls := []LineString{vfLineXY(a, c), vfLineXY(b, d)}
		plain = NewMultiLineString(ls).AsGeometry()
		var w []LineString
		for _, k := range ins(2) {
			if k < 0 {
				w = append(w, LineString{})
			} else {
				w = append(w, ls[k])
			}
		}
		with = NewMultiLineString(w).AsGeometry()
	default:
		e := vfEmpty(vfInt("kind", 0, vfNumEmpties-1), DimXY)
		gs := []Geometry{vfPointXY(a).AsGeometry(), vfPointXY(b).AsGeometry()}
		plain = NewGeometryCollection(gs).AsGeometry()
		var w []Geometry
		for _, k := range ins(2) {
			if k < 0 {
				w = append(w, e)
			} else {
				w = append(w, gs[k])
			}
		}
		with = NewGeometryCollection(w).AsGeometry()
	}
	p0, ok0 := plain.PointOnSurface().XY()
	p1, ok1 := with.PointOnSurface().XY()
	vfAssert(ok0 && ok1, "non-empty geometries have a point on their surface")
	vfAssert(vfAnd(p0.X == p1.X, p0.Y == p1.Y), "PointOnSurface is unchanged by an empty member")
	vfReach("end")
}

func init() {
	vfHarnesses["C20_member_transparency"] = vfhC20MemberTransparency
	vfHarnesses["C09_member_transparency"] = vfhC20MemberTransparency
}

// An EMPTY member inserted at any position of a Multi* geometry changes
// neither Intersects nor Distance against another geometry (the member that
// decides the answer may come after the empty one, lie strictly inside the
// other operand, or be the far one).
func vfhC20MemberTransparency() {
	type row struct {
		kind    string
		members []string
		other   string
	}
	rows := []row{
		{"MULTILINESTRING", []string{"(2 2,3 3)"}, "POLYGON((0 0,10 0,10 10,0 10,0 0))"},
		{"MULTILINESTRING", []string{"(20 20,21 21)", "(2 2,3 3)"}, "POLYGON((0 0,10 0,10 10,0 10,0 0))"},
		{"MULTILINESTRING", []string{"(20 20,21 21)", "(2 2,3 3)"}, "MULTIPOLYGON(((50 50,60 50,60 60,50 50)),((0 0,10 0,10 10,0 10,0 0)))"},
		{"MULTILINESTRING", []string{"(20 20,21 21)", "(30 30,31 35)"}, "POLYGON((0 0,10 0,10 10,0 10,0 0))"},
		{"MULTILINESTRING", []string{"(20 20,21 21)", "(0 5,5 0)"}, "LINESTRING(0 0,4 4)"},
		{"MULTILINESTRING", []string{"(20 20,21 21)", "(0 5,5 0)"}, "MULTIPOINT(9 9,1 4)"},
		{"MULTIPOINT", []string{"(20 20)", "(2 3)"}, "POLYGON((0 0,10 0,10 10,0 10,0 0))"},
		{"MULTIPOINT", []string{"(20 20)", "(2 3)"}, "LINESTRING(0 1,4 5)"},
		{"MULTIPOLYGON", []string{"((20 20,21 20,21 21,20 20))", "((2 2,3 2,3 3,2 2))"}, "POLYGON((0 0,10 0,10 10,0 10,0 0))"},
		{"MULTIPOLYGON", []string{"((20 20,21 20,21 21,20 20))", "((0 0,10 0,10 10,0 10,0 0))"}, "LINESTRING(2 2,3 3)"},
		{"MULTIPOLYGON", []string{"((20 20,21 20,21 21,20 20))", "((0 0,10 0,10 10,0 10,0 0))"}, "MULTILINESTRING((40 40,41 41),(2 2,3 3))"},
	}
	r := rows[vfInt("case", 0, len(rows)-1)]
	pos := vfInt("empty-at", 0, 2)
	vfAssume(pos <= len(r.members))
	build := func(withEmpty bool) Geometry {
		txt := r.kind + "("
		n := 0
		for i := 0; i <= len(r.members); i++ {
			if withEmpty && i == pos {
				if n > 0 {
					txt += ","
				}
				txt += "EMPTY"
				n++
			}
			if i < len(r.members) {
				if n > 0 {
					txt += ","
				}
				txt += r.members[i]
				n++
			}
		}
		g, err := UnmarshalWKT(txt + ")")
		vfAssert(err == nil, "operand parses")
		return g
	}
	plain, with := build(false), build(true)
	other, err := UnmarshalWKT(r.other)
	vfAssert(err == nil, "other operand parses")
	if vfBool("wrapped") {
		with = NewGeometryCollection([]Geometry{with}).AsGeometry()
	}
	vfAssert(Intersects(with, other) == Intersects(plain, other), "Intersects(with, other) unchanged by the empty member")
	vfAssert(Intersects(other, with) == Intersects(other, plain), "Intersects(other, with) unchanged by the empty member")
	d1, ok1 := Distance(with, other)
	d0, ok0 := Distance(plain, other)
	vfAssert(ok1 == ok0 && d1 == d0, "Distance(with, other) unchanged by the empty member")
	d1, ok1 = Distance(other, with)
	vfAssert(ok1 == ok0 && d1 == d0, "Distance(other, with) unchanged by the empty member")
	dj1, err1 := Disjoint(with, other)
	dj0, err0 := Disjoint(plain, other)
	vfAssert(err1 == nil && err0 == nil && dj1 == dj0 && dj1 == !Intersects(with, other), "Disjoint agrees")
	vfReach("end")
}
